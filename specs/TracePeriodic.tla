---------------------------- MODULE TracePeriodic ----------------------------
(***************************************************************************)
(* C15 on arbitrary doubles: evaluations of the real periodic-boundary     *)
(* classes (cubic and cuboid), judged on F64 keys.  `res' = measured       *)
(* distance (in ulps of L) of the output from the exact x mod L.           *)
(***************************************************************************)
EXTENDS F64, Sequences, TLC, Json, IOUtils
VARIABLES l, viol
Log == ndJsonDeserialize(IOEnv.TRACE_FILE)

Clauses(e) ==
    CASE e.op = "pos" ->
           (IF ~(KLe(KZero, e.out) /\ KLt(e.out, e.L)) THEN {<<l, "correct_position: result not in [0, L)">>} ELSE {})
           \cup (IF ~KEq(e.again, e.out) THEN {<<l, "correct_position: not idempotent">>} ELSE {})
           \cup (IF e.res > 1 THEN {<<l, "correct_position: result not congruent to the input modulo L">>} ELSE {})
           \cup (IF ~KEq(e.cuboid, e.out) THEN {<<l, "correct_position: cubic and cuboid implementations differ">>} ELSE {})
           \cup (IF "vec" \in DOMAIN e /\ (~KEq(e.vec, e.out) \/ ~KEq(e.qvec, e.out))
                 THEN {<<l, "correct_position: the in-place vector version (cubic or cuboid) differs from the entry version">>} ELSE {})
      [] e.op = "sep" ->
           (IF ~(KLe(e.mhalf, e.out) /\ KLe(e.out, e.half)) THEN {<<l, "separation: component exceeds half the box length">>} ELSE {})
           \cup (IF e.res > 2 THEN {<<l, "separation: not congruent to the difference modulo L">>} ELSE {})
           \cup (IF ~KEq(e.cuboid, e.out) THEN {<<l, "separation: cubic and cuboid implementations differ">>} ELSE {})
           \cup (IF "vec" \in DOMAIN e /\ ~KEq(e.vec, e.out)
                 THEN {<<l, "separation: the in-place vector version differs from the entry version">>} ELSE {})
TStep == l <= Len(Log) /\ viol' = viol \cup Clauses(Log[l]) /\ l' = l + 1
TInit == l = 1 /\ viol = {}
TSpec == TInit /\ [][TStep]_<<l, viol>>
Report == l <= Len(Log) \/ PrintT(<<"VERDICT", Len(Log), viol>>)
=============================================================================
