SPECIFICATION SimSpec
CONSTANTS
  Handlers = {1, 2, 3}
  Times <- T13
  Tolerant = TRUE
  InitSize = 3
  MaxCounter = 1
  MaxLen = 12
  Cap = 32
  OneShot = TRUE
  GetWeight = 4
  TrashWeight = 2
  Depth = 40
CONSTRAINT Bounded
INVARIANT Emit
INVARIANT HeapOrder
INVARIANT LiveHasEntry
CHECK_DEADLOCK FALSE
