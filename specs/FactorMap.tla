------------------------------ MODULE FactorMap ------------------------------
(***************************************************************************)
(* activator/tagger/factor_type_maps.py + FactorTypeMapInStateTagger:      *)
(* which in-states a factor file generates for an active point mass.       *)
(* A file is a set of lines <<index set, factor name>>; indices 0..K-1 are *)
(* the point masses of the active unit's composite object, K..2K-1 those   *)
(* of another composite object.  A factor is local when every index of its *)
(* lines is < K.  Index sets are sorted tuples.                            *)
(***************************************************************************)
EXTENDS Integers, Sequences, FiniteSets, TLC, Json

CONSTANTS K, NRoots, MaxB

Idx == 0 .. 2 * K - 1
LocalLines    == {s \in SUBSET (0 .. K - 1) : Cardinality(s) >= 2}
NonLocalLines == {s \in SUBSET Idx : Cardinality(s) >= 2 /\ Cardinality(s) <= 3 /\ (\E i \in s : i >= K) /\ (\E j \in s : j < K)} \cup {Idx}
(* a file has one local factor "A" and one inter-object factor "B" *)
RECURSIVE UpTo(_, _)
UpTo(S, n) == IF n = 0 THEN {{}} ELSE UpTo(S, n - 1) \cup {t \cup {x} : t \in UpTo(S, n - 1), x \in S}
Files == {[a |-> la, b |-> lb] : la \in SUBSET LocalLines, lb \in UpTo(NonLocalLines, MaxB)}

RECURSIVE SortedSeq(_)
SortedSeq(s) == IF s = {} THEN <<>> ELSE LET m == CHOOSE x \in s : \A y \in s : x <= y IN <<m>> \o SortedSeq(s \ {m})

Instantiate(line, r, other) == [j \in 1 .. Cardinality(line) |->
                                   LET i == SortedSeq(line)[j] IN IF i < K THEN <<r, i>> ELSE <<other, i - K>>]
(* in-states for the active point mass <<r, k>> *)
GenLocal(lines, r, k)    == {Instantiate(l, r, r) : l \in {x \in lines : k \in x}}
GenNonLocal(lines, r, k) == UNION {{Instantiate(l, r, o) : l \in {x \in lines : k \in x}} : o \in (0 .. NRoots - 1) \ {r}}

(* ---------------------------------------- clauses of C10 (second sentence) *)
ExactlyContainingSets ==
    \A f \in Files, r \in 0 .. NRoots - 1, k \in 0 .. K - 1 :
        /\ Cardinality(GenLocal(f.a, r, k)) = Cardinality({l \in f.a : k \in l})                          \* once per intra-object factor
        /\ Cardinality(GenNonLocal(f.b, r, k)) = (NRoots - 1) * Cardinality({l \in f.b : k \in l})      \* once per other object
        /\ \A t \in GenLocal(f.a, r, k) \cup GenNonLocal(f.b, r, k) : \E j \in DOMAIN t : t[j] = <<r, k>>
ASSUME ExactlyContainingSets

VARIABLES file, active
Init == file \in Files /\ active \in {<<r, k>> : r \in 0 .. NRoots - 1, k \in 0 .. K - 1}
Next == \E r \in 0 .. NRoots - 1, k \in 0 .. K - 1 : active' = <<r, k>> /\ UNCHANGED file      \* a lifting moves the active point mass
Spec == Init /\ [][Next]_<<file, active>>
ActiveInEveryInState == \A t \in GenLocal(file.a, active[1], active[2]) \cup GenNonLocal(file.b, active[1], active[2]) :
                            \E j \in DOMAIN t : t[j] = active

ASSUME TLCSet(7, 0)
(* printed once: the table is a constant, but TLC would re-evaluate (and re-serialise) it in every state *)
EmitTable == TLCGet(7) = 1 \/ (TLCSet(7, 1) /\ PrintT(<<"TABLE", ToJson([k |-> K, nroots |-> NRoots,
    files |-> {[a |-> {SortedSeq(l) : l \in f.a}, b |-> {SortedSeq(l) : l \in f.b},
                gen |-> {<<r, k, GenLocal(f.a, r, k), GenNonLocal(f.b, r, k)>> : r \in 0 .. NRoots - 1, k \in 0 .. K - 1}]
               : f \in Files}])>>))
=============================================================================
