------------------------------ MODULE TraceEcmc ------------------------------
(***************************************************************************)
(* Code -> spec for the event loop: a recorded run of the real mediator    *)
(* (harness/recorder.py, one record per call across a component boundary)  *)
(* is replayed against the run-level state machine of DESIGN.md section 2: *)
(*                                                                         *)
(*   run    Activate   (activator returned handlers to run + fresh gens)   *)
(*   time   Candidate  (send_event_time returned)                          *)
(*   push   Push       next  Select      strash  SchedTrash   (scheduler)  *)
(*   out    OutState   commit Commit     trash   Trash        write  Write *)
(*                                                                         *)
(* The spec tracks the abstract state the properties talk about (global    *)
(* state by interned ids, motion versions, pending candidates, running     *)
(* handlers, abstract scheduler) from the records alone and evaluates      *)
(* every run-level clause (appendix B of DESIGN.md) at every step.         *)
(* A violated clause is *recorded* in `viol' as <<property, line, clause>> *)
(* and the trace continues, so one verdict covers the whole run.           *)
(* Doubles appear only as order keys (F64.tla); measured residuals are     *)
(* integers in the units stated next to each bound.                        *)
(***************************************************************************)
EXTENDS F64, Sequences, FiniteSets, TLC, Json, IOUtils

Log  == ndJsonDeserialize(IOEnv.TRACE_FILE)
Meta == Log[1]                       \* the init record
N    == Len(Meta.units)
H    == Len(Meta.handlers)
Units    == 1 .. N
Handlers == 1 .. H
Tags     == 1 .. Len(Meta.taggers)

VARIABLES l, viol,
          g,          \* [Units -> <<posId, velId, tsKey>>]   tracked global state
          ver,        \* [Units -> Nat]                        motion version
          pend,       \* [Handlers -> candidate record]
          running,    \* [Handlers -> BOOLEAN]                 activator level
          runids,     \* [Handlers -> Seq(uid)]                in-state identifiers of the running handler
          sched,      \* [Handlers -> time or NoTime]          abstract scheduler
          lastT,      \* time returned by the previous Select
          cur,        \* handler selected in this leg
          commitT,    \* time of the last commit
          started,    \* start-of-run event committed
          nsamp,      \* [Handlers -> number of state writes]
          ncand,      \* [Handlers -> <<candidates with t < end, candidates with t <= end>>]
          vres        \* [velocity id -> measured |speed - initial speed| in units of 2^-40 speed]

vars == <<l, viol, g, ver, pend, running, runids, sched, lastT, cur, commitT, started, nsamp, ncand, vres>>

NoTime == <<KNaN, KNaN>>
Has(e, f) == f \in DOMAIN e
Range(s) == {s[i] : i \in DOMAIN s}

TagOf(h)  == Meta.handlers[h].tag
KindOfTag(t) == Meta.taggers[t].kind
Kind(h)   == KindOfTag(TagOf(h))
Interaction(k) == k \in {"factor_map", "excluded_cells", "surplus_cells", "cell_bounding", "cell_veto"}
Parent(u) == Meta.parent[u]
Kids(u)   == {v \in Units : Parent(v) = u}
IsLeaf(u) == Kids(u) = {}
Roots     == {u \in Units : Parent(u) = 0}
BranchUnits(u) == {u} \cup (IF Parent(u) = 0 THEN {} ELSE {Parent(u)}) \cup Kids(u)
TFinite(t) == KFinite(t[1]) /\ KFinite(t[2])
TLe(s, t) == TKLt(s, t) \/ TKEq(s, t)
EndT == IF Has(Meta, "end_time") THEN Meta.end_time ELSE TKInf
V(p, ln, c) == {<<p, ln, c>>}
If(b, S) == IF b THEN S ELSE {}

St(s) == <<s[2], s[3], s[4]>>
AsMap(states) == [u \in {s[1] : s \in Range(states)} |-> St(CHOOSE s \in Range(states) : s[1] = u)]
NoPend == [on |-> FALSE, t |-> NoTime, us |-> {}, vers |-> <<>>, cell |-> 0 - 1]

(* ======================================================================== descriptors of new interned values *)
DescClauses(e) ==
    (IF Has(e, "posdesc") THEN
        UNION {If(\E d \in DOMAIN p[2] : ~(KLe(KZero, p[2][d]) /\ KLt(p[2][d], Meta.L[d])),
                  V("C07", l, "InBox: a position component outside [0, L)")) : p \in Range(e.posdesc)}
     ELSE {})

vres1(e) == IF Has(e, "veldesc") /\ e.veldesc # <<>>
            THEN [i \in DOMAIN vres \cup {vd[1] : vd \in Range(e.veldesc)} |->
                     IF \E vd \in Range(e.veldesc) : vd[1] = i THEN (CHOOSE vd \in Range(e.veldesc) : vd[1] = i)[6] ELSE vres[i]]
            ELSE vres

(* ======================================================================== run (Activate) *)
RunningOf(t, run) == {h \in Handlers : run[h] /\ TagOf(h) = t}
BagEq(t, run, ids, fresh) ==
    LET hs == RunningOf(t, run)
        xs == {ids[h] : h \in hs} \cup Range(fresh)
    IN  \A x \in xs : Cardinality({h \in hs : ids[h] = x}) = Cardinality({i \in DOMAIN fresh : fresh[i] = x})
FreshOf(e, t) == (CHOOSE f \in Range(e.fresh) : f[1] = t)[2]

CellClauses(e) ==
    UNION {LET sysm == Meta.cellsys[c.sys]
               rel  == Range(sysm.relevant)
               truth == [u \in {x[1] : x \in Range(c.truth)} |-> (CHOOSE x \in Range(c.truth) : x[1] = u)[2]]
               cnt(u, cell, lst) == Cardinality({x \in Range(lst) : x[1] = cell /\ u \in Range(x[2])})
               every(u, lst) == Cardinality({x \in Range(lst) : u \in Range(x[2])})
               amb == Range(c.ambiguous)
           IN  UNION {If(u \notin amb /\ u # c.activeUid /\
                         ~(cnt(u, truth[u], c.occ) + cnt(u, truth[u], c.surplus) = 1 /\ every(u, c.occ) + every(u, c.surplus) = 1),
                         V("C11", l, "Mirror: a non-active relevant unit is not recorded exactly once in the cell containing its position"))
                      : u \in rel \cap DOMAIN truth}
               \cup If(c.activeUid # 0 /\ (every(c.activeUid, c.occ) + every(c.activeUid, c.surplus) # 0),
                       V("C11", l, "ActiveSeparate: the active unit is listed as occupant or surplus"))
               \cup If(c.activeUid # 0 /\ c.activeUid \notin amb /\ c.activeUid \in DOMAIN truth /\ truth[c.activeUid] # c.activeCell,
                       V("C11", l, "ActiveSeparate: recorded active cell is not the cell containing the active unit"))
               \cup If(sysm.maxocc > 0 /\ \E x \in Range(c.occ) : Len(x[2]) > sysm.maxocc,
                       V("C11", l, "Capacity: a cell lists more occupants than its limit"))
               \cup If(\E x \in Range(c.surplus) : Len(x[2]) = 0, V("C11", l, "NoEmptySurplusList"))
           : c \in Range(e.cells)}

(* C10 on the recorded run: the targets of the three cell-based families partition the other relevant units *)
NearbyCell(sysm, a, c) == \A k \in DOMAIN sysm.per_side :
                              LET d == (sysm.ids[c + 1][k] - sysm.ids[a + 1][k]) % sysm.per_side[k] IN
                              d <= sysm.layers \/ sysm.per_side[k] - d <= sysm.layers
PartitionClauses(e) ==
    UNION {LET sysm == Meta.cellsys[c.sys]
               rel  == Range(sysm.relevant)
               tagsOf(kind) == {t \in Tags : KindOfTag(t) = kind /\ Meta.taggers[t].sys = c.sys /\ e.activated[t] = 1}
               second(t) == {x[2] : x \in Range(FreshOf(e, t))}
               rest(t) == UNION {{x[k] : k \in 2 .. Len(x)} : x \in Range(FreshOf(e, t))}
               exT == tagsOf("excluded_cells")   suT == tagsOf("surplus_cells")
               cbT == tagsOf("cell_bounding")    cvT == tagsOf("cell_veto")
               near == IF exT = {} THEN {} ELSE second(CHOOSE t \in exT : TRUE)
               sur  == IF suT = {} THEN {} ELSE second(CHOOSE t \in suT : TRUE)
               far  == IF cbT # {} THEN rest(CHOOSE t \in cbT : TRUE)
                       ELSE UNION {Range(x[2]) : x \in {y \in Range(c.occ) : ~NearbyCell(sysm, c.activeCell, y[1])}}
               complete == exT # {} /\ suT # {} /\ (cbT # {} \/ cvT # {})
           IN  IF c.activeUid = 0 /\ complete /\ \E u \in rel : g[u][2] # 0
               THEN V("C10", l, "Partition: a relevant unit moves but is not the active unit of its cell system, so none of its partners is treated by the cell-based families")
               ELSE
               IF c.activeUid = 0 \/ ~complete THEN {} ELSE
               If((near \cup sur \cup far) # rel \ {c.activeUid},
                  V("C10", l, "Partition: nearby, surplus and cell-veto/cell-bounding targets do not cover exactly the other relevant units"))
               \cup If(near \cap sur # {} \/ near \cap far # {} \/ sur \cap far # {},
                       V("C10", l, "Partition: a unit is treated by two cell-based families"))
           : c \in Range(e.cells)}

(* C09, last sentence: no factor involving a moving unit is missing or duplicated -- on the *pending* candidates of the
   cell-based families of one cell system (the far part of a cell-veto family is the occupancy of the non-nearby cells) *)
CoverClauses(e, run, ids) ==
    UNION {LET sysm == Meta.cellsys[c.sys]
               rel  == Range(sysm.relevant)
               tagsOf(kind) == {t \in Tags : KindOfTag(t) = kind /\ Meta.taggers[t].sys = c.sys /\ e.activated[t] = 1}
               pend2(t) == {ids[h][2] : h \in RunningOf(t, run)}
               pendRest(t) == UNION {{ids[h][k] : k \in 2 .. Len(ids[h])} : h \in RunningOf(t, run)}
               exT == tagsOf("excluded_cells")   suT == tagsOf("surplus_cells")
               cbT == tagsOf("cell_bounding")    cvT == tagsOf("cell_veto")
               near == IF exT = {} THEN {} ELSE pend2(CHOOSE t \in exT : TRUE)
               sur  == IF suT = {} THEN {} ELSE pend2(CHOOSE t \in suT : TRUE)
               far  == IF cbT # {} THEN pendRest(CHOOSE t \in cbT : TRUE)
                       ELSE UNION {Range(x[2]) : x \in {y \in Range(c.occ) : ~NearbyCell(sysm, c.activeCell, y[1])}}
               complete == exT # {} /\ suT # {} /\ (cbT # {} \/ cvT # {})
           IN  IF c.activeUid = 0 \/ ~complete THEN {} ELSE
               If((near \cup sur \cup far) # rel \ {c.activeUid} \/ near \cap sur # {} \/ near \cap far # {} \/ sur \cap far # {},
                  V("C09", l, "CoveredOnce: a factor between the moving unit and another relevant unit is missing from or duplicated in the pending events"))
           : c \in Range(e.cells)}

(* Factor-file taggers: what the tagger generates for the present active point masses (e.fresh) against the index sets of the  *)
(* factor file as FactorMap.tla instantiates them -- an oracle that does not go through the tagger: every line that contains   *)
(* the active point mass's own index, once per other composite object (inter-object factors) or once (intra-object).           *)
IdOf(u)     == Meta.units[u]
UidOf(id)   == CHOOSE u \in Units : Meta.units[u] = id
LeafIdx(u)  == IF Len(IdOf(u)) = 1 THEN 0 ELSE IdOf(u)[2]
RootIdx(u)  == IdOf(u)[1]
MkId(r, i)  == IF Meta.levels = 1 THEN <<r>> ELSE <<r, i>>
InstSet(line, r, o) == {UidOf(IF line[j] < Meta.nleaves THEN MkId(r, line[j]) ELSE MkId(o, line[j] - Meta.nleaves)) : j \in DOMAIN line}
ExpectedFactors(t, A) ==
    LET fm == Meta.taggers[t].fmap IN
    UNION {UNION {{InstSet(fm.lines[i], RootIdx(a), o) : o \in (IF fm.local = 1 THEN {RootIdx(a)} ELSE (0 .. Meta.nroots - 1) \ {RootIdx(a)})}
                  : i \in {i \in DOMAIN fm.lines : \E j \in DOMAIN fm.lines[i] : fm.lines[i][j] = LeafIdx(a)}}
           : a \in A}
FactorClauses(e) ==
    LET A == {s[1] : s \in {x \in Range(e.active) : IsLeaf(x[1]) /\ x[3] # 0}} IN
    UNION {IF KindOfTag(t) = "factor_map" /\ Meta.taggers[t].fmap.kind = "map" /\ e.activated[t] = 1
           THEN LET fr == FreshOf(e, t)
                    got == {Range(fr[i]) : i \in DOMAIN fr}
                IN  If(got # ExpectedFactors(t, A) \/ Len(fr) # Cardinality(got),
                       V("C09", l, "FactorInStates: a factor-file tagger does not generate exactly the index sets of the file that contain an active point mass (each once)")
                       \cup V("C10", l, "FactorInStates: a factor-file tagger does not generate exactly the index sets of the file that contain an active point mass (each once)"))
           ELSE {}
           : t \in Tags}

RunStep(e) ==
    LET ret == e.ret
        hs  == {r[1] : r \in Range(ret)}
        run1 == [h \in Handlers |-> running[h] \/ h \in hs]
        ids1 == [h \in Handlers |-> IF h \in hs THEN (CHOOSE r \in Range(ret) : r[1] = h)[2] ELSE runids[h]]
        c09 == IF e.prev = 0 THEN {} ELSE
               UNION {IF KindOfTag(t) = "start_of_run" THEN {}
                      ELSE IF Interaction(KindOfTag(t))
                           THEN If(~BagEq(t, run1, ids1, FreshOf(e, t)),
                                   V("C09", l, "PendingEqualsFresh: pending in-states of an interaction tagger differ from a fresh start"))
                           ELSE If(Cardinality(RunningOf(t, run1)) # Len(FreshOf(e, t)),
                                   V("C09", l, "CountsAgree: number of pending events of a tagger differs from a fresh start"))
                      : t \in Tags}
        free == If(\E h \in hs : running[h], V("C09", l, "ReturnedWereFree: activator returned a handler that is already running"))
    IN  /\ running' = run1 /\ runids' = ids1
        /\ viol' = viol \cup c09 \cup (IF e.prev = 0 THEN {} ELSE CoverClauses(e, run1, ids1)) \cup free \cup CellClauses(e) \cup (IF e.prev = 0 THEN {} ELSE PartitionClauses(e)) \cup DescClauses(e) \cup (IF e.prev = 0 THEN {} ELSE FactorClauses(e))
        /\ UNCHANGED <<g, ver, pend, sched, lastT, cur, commitT, started, nsamp, ncand>>

(* ======================================================================== time (Candidate) *)
CellVetoClauses(e) ==
    IF ~Has(e.sub, "cellveto") THEN {} ELSE
    LET cv == e.sub.cellveto
        sysm == Meta.cellsys[cv.sys]
        a == sysm.ids[cv.activeCell + 1]
        r == sysm.ids[cv.rel + 1]
        tg == sysm.ids[cv.target + 1]
        want == [k \in DOMAIN a |-> (a[k] + r[k]) % sysm.per_side[k]]
    IN  If(tg # want, V("C18", l, "CellVetoTarget: target cell is not the active unit's cell translated by the sampled offset"))
        \cup If(tg # want \/ NearbyCell(sysm, cv.activeCell, cv.target),
                V("C10", l, "Partition: cell-veto targets are not the non-nearby cells of the tracked active cell (a partner is missed or treated twice)"))
        \cup If(~KEq(cv.rate, cv.rateref), V("C18", l, "CellVetoBound: bound used differs from the table entry for (offset, direction, sign)"))
        \cup If((cv.signpos = 1 /\ cv.walker # "upper") \/ (cv.signpos = 0 /\ cv.walker # "lower"),
                V("C18", l, "CellVetoWalkerSign: wrong walker for the sign of the charge factor"))
        \cup If(cv.positive # 1, V("C18", l, "CellVetoBound: proposed from a cell with non-positive bound"))
        \cup If(Has(cv, "propres") /\ cv.propres > 1, V("C18", l, "CellVetoRate: events are not proposed at total rate * speed (beyond one rounding of the time addition)"))
        \cup If(Has(cv, "totok") /\ cv.totok = 0, V("C18", l, "CellVetoTotal: the total rate of the alias table in use differs from the sum of the stored (clipped) bounds of all cell offsets for this direction and sign"))

TimeStep(e) ==
    LET h == e.hid
        us == {s[1] : s \in Range(e.instate)}
        want == UNION {BranchUnits(u) : u \in Range(runids[h])}
        c13 == If(\E s \in Range(e.instate) : St(s) # g[s[1]],
                  V("C13", l, "BranchCurrent: an in-state does not carry the current values of the global state"))
               \cup If(us # want /\ Kind(h) # "end_of_chain",
                       V("C13", l, "BranchShape: in-state is not node + ancestors + descendants of its identifiers"))
        isSamp == Kind(h) = "sampling"
        samp == IF isSamp /\ Has(e.sub, "sres")
                THEN If(e.sub.sres > e.sub.k, V("C17", l, "SampleTimes: sampling time drifts from k * interval by more than one rounding per step"))
                     \cup If(pend[h].t # NoTime /\ ~TKLt(pend[h].t, e.t), V("C17", l, "SampleTimes: sampling times not strictly increasing"))
                ELSE {}
        cell == IF Has(e.sub, "cellveto") THEN e.sub.cellveto.activeCell ELSE 0 - 1
    IN  /\ pend' = [pend EXCEPT ![h] = [on |-> TRUE, t |-> e.t, us |-> us, vers |-> [u \in us |-> ver[u]], cell |-> cell]]
        /\ ncand' = [ncand EXCEPT ![h] = <<@[1] + (IF TKLt(e.t, EndT) THEN 1 ELSE 0), @[2] + (IF TLe(e.t, EndT) THEN 1 ELSE 0)>>]
        /\ viol' = viol \cup c13 \cup samp \cup CellVetoClauses(e) \cup DescClauses(e)
        /\ UNCHANGED <<g, ver, running, runids, sched, lastT, cur, commitT, started, nsamp>>

(* ======================================================================== scheduler *)
PushStep(e) ==
    /\ sched' = [sched EXCEPT ![e.hid] = e.t]
    /\ viol' = viol \cup If(e.t # pend[e.hid].t, V("C06", l, "pushed time is not the candidate time of the handler"))
                    \cup If(sched[e.hid] # NoTime, V("C06", l, "protocol: second live event pushed for one handler"))
    /\ UNCHANGED <<g, ver, pend, running, runids, lastT, cur, commitT, started, nsamp, ncand>>

NextStep(e) ==
    LET live == {h \in Handlers : sched[h] # NoTime /\ TFinite(sched[h])}
        c06 == IF e.err # "none"
               THEN If(live # {}, V("C06", l, "scheduler raised although a finite live event exists"))
               ELSE If(e.hid \notin Handlers \/ sched[e.hid] = NoTime, V("C06", l, "MinOfLive: returned handler has no live event (trashed or never pushed)"))
                    \cup If(e.hid \in Handlers /\ sched[e.hid] # NoTime /\ \E x \in live : TKLt(sched[x], sched[e.hid]),
                            V("C06", l, "MinOfLive: a live event with a smaller time exists"))
                    \cup If(e.hid \in Handlers /\ sched[e.hid] # NoTime /\ Has(e, "t") /\ e.t # NoTime /\ e.t # sched[e.hid],
                            V("C06", l, "MinOfLive: returned time is not the time of the handler's live event (a trashed event was returned)")
                            \cup V("C08", l, "NoStalePending: the scheduler returned a trashed candidate (computed from a trajectory that is no longer current)"))
                    \cup If(e.hid \in Handlers /\ sched[e.hid] # NoTime /\ TKLt(sched[e.hid], lastT),
                            V("C07", l, "TimesMonotone: selected event time decreases"))
    IN  /\ cur' = e.hid
        /\ lastT' = IF e.err = "none" /\ e.hid \in Handlers /\ sched[e.hid] # NoTime THEN sched[e.hid] ELSE lastT
        /\ viol' = viol \cup c06
        /\ UNCHANGED <<g, ver, pend, running, runids, sched, commitT, started, nsamp, ncand>>

STrashStep(e) ==
    /\ sched' = [sched EXCEPT ![e.hid] = NoTime]
    /\ viol' = viol \cup If(e.err # "none", V("C06", l, "scheduler failed to trash an event"))
    /\ UNCHANGED <<g, ver, pend, running, runids, lastT, cur, commitT, started, nsamp, ncand>>

(* ======================================================================== out (OutState): thinning and lifting *)
ThinClauses(e) ==
    LET hm == Meta.handlers[e.hid]
        changed == \E s \in Range(e.out) : s[3] # g[s[1]][2]
        confirmedBy(th) == th.drawn = 1 /\ KLt(th.u, th.q) /\ KLt(KZero, th.q)
        anyConfirmed == \E th \in Range(e.sub.thin) : confirmedBy(th)
    IN  IF hm.thinning = 0 THEN {} ELSE
        If(changed # anyConfirmed,
           V("C04", l, "Thinning: velocities change iff the uniform draw is below the true rate (confirmation rule / no-op on rejection)"))
        \cup UNION {If(KLt(KZero, th.q) /\ ~KLt(KZero, th.qb), V("C04", l, "Thinning: true rate positive but bounding rate not positive"))
                    \cup If(hm.dominating = 1 /\ ~KLe(th.q, th.qb), V("C04", l, "Domination: true rate exceeds the nearest-image 1/r bound"))
                    \cup If(~KEq(th.qb, th.qbref), V("C04", l, "Thinning: confirmation rate is not the sum of the positive pair bounds the event was proposed with"))
                    \cup If("sliced" \in DOMAIN th /\ th.sliced = 0, V("C04", l, "RatesAtEventTime: the rates of the confirmation were evaluated while a moving unit of the handler's state was not time-sliced to the event time"))
                    : th \in Range(e.sub.thin)}

LiftClauses(e) ==
    UNION {LET row == CHOOSE x \in Range(lf.table) : x[1] = lf.chosen IN
           If(~(\E x \in Range(lf.table) : x[1] = lf.chosen), V("C05", l, "LiftNegative: selected unit is not in the table"))
           \cup If((\E x \in Range(lf.table) : x[1] = lf.chosen) /\ ~KLt(row[2], KZero),
                   V("C05", l, "LiftNegative: selected unit does not have a negative derivative"))
           : lf \in Range(e.sub.lift)}

OutStep(e) ==
    /\ viol' = viol \cup ThinClauses(e) \cup LiftClauses(e) \cup DescClauses(e)
                    \cup If(e.hid # cur, V("C08", l, "out-state requested from a handler that was not selected"))
    /\ UNCHANGED <<g, ver, pend, running, runids, sched, lastT, cur, commitT, started, nsamp, ncand>>

(* ======================================================================== commit *)
CommitStep(e) ==
    LET h == cur
        before == [u \in Units |-> St(e.before[u])]
        after  == [u \in Units |-> St(e.after[u])]
        outUs  == {s[1] : s \in Range(e.units)}
        t == IF h \in Handlers THEN pend[h].t ELSE NoTime
        movingLeaves == {u \in Units : IsLeaf(u) /\ after[u][2] # 0}
        c13 == If(\E u \in Units : before[u] # g[u], V("C13", l, "NoChangeBetweenCommits: global state changed between two commits"))
               \cup If(\E u \in Units : after[u] # before[u] /\ u \notin outUs, V("C13", l, "OnlyOutStateChanged: a unit outside the out-state changed"))
               \cup If(\E s \in Range(e.units) : after[s[1]] # St(s), V("C13", l, "InsertExact: values read back differ from the inserted out-state"))
        c08 == If(h \in Handlers /\ Interaction(Kind(h)) /\ pend[h].on /\ \E u \in pend[h].us : pend[h].vers[u] # ver[u],
                  V("C08", l, "FreshAtCommit: committed candidate was computed from a trajectory that is no longer current"))
               \cup If(h \in Handlers /\ ~pend[h].on, V("C08", l, "commit of a handler without pending candidate"))
               \cup If(h \in Handlers /\ Interaction(Kind(h)) /\ "c08" \in DOMAIN e /\ \E r \in Range(e.c08) : r[2] = 0 \/ r[3] > 1,
                       V("C08", l, "SameTrajectory: a unit of the in-state from which the committed candidate was computed has another velocity, or is off the straight line it was on (2^-30 L), in the global state"))
        c17m == If(h \in Handlers /\ Kind(h) \in {"sampling", "end_of_run"} /\ t # NoTime /\ TFinite(commitT) /\ TKLt(t, commitT),
                   V("C17", l, "SampleAfterLaterEvent: a sampling / end-of-run event is committed at a time before the previously committed event (the state it hands out is not the configuration at its nominal time)"))
        c07 == If(t # NoTime /\ TFinite(commitT) /\ TKLt(t, commitT), V("C07", l, "TimesMonotone: committed event time decreases"))
               \cup If(\E u \in Units : before[u][2] = 0 /\ after[u][2] = 0 /\ before[u][1] # after[u][1],
                       V("C07", l, "InactiveFixed: a unit without velocity changed its position"))
               \cup If(\E r \in Range(e.res) : r[2] > 1, V("C07", l, "Advance: position is not the previous position advanced by velocity * elapsed time (2^-30 L)"))
               \cup If(started /\ ~(Cardinality(movingLeaves) = 1 \/ \E r \in Roots : Kids(r) # {} /\ movingLeaves = Kids(r)),
                       V("C07", l, "OneChain: moving point masses are neither one point mass nor all point masses of one object"))
               \cup If(started /\ Cardinality({after[u][2] : u \in movingLeaves}) > 1, V("C07", l, "OneChain: moving point masses do not share one velocity"))
               \cup If(\E u \in Units : e.after[u][5] # Meta.state[u][5] \/ e.after[u][1] # u, V("C07", l, "IdentityCharge: identifier or charge changed"))
               \cup If(started /\ \E u \in movingLeaves : after[u][2] \in DOMAIN vres1(e) /\ vres1(e)[after[u][2]] > 1,
                       V("C07", l, "Speed: a moving point mass does not have the initial speed (2^-40 relative)"))
        c12 == UNION {If(Kids(r) # {} /\ ((after[r][2] # 0) # (\E k \in Kids(r) : after[k][2] # 0)),
                         V("C12", l, "RootVelocityPresence: composite object has a velocity iff one of its point masses has"))
                      : r \in Roots}
               \cup (IF Has(e, "c12") THEN
                        If(\E x \in Range(e.c12) : x[2] > 1, V("C12", l, "RootVelocity: stored velocity is not the weighted sum of the point masses' velocities (1e-12 speed)"))
                        \cup If(\E x \in Range(e.c12) : x[3] > 1, V("C12", l, "Barycentre: stored position advanced to the event time is not the weighted barycentre (2^-30 L)"))
                     ELSE {})
        ver1 == [u \in Units |-> IF before[u][2] # after[u][2] \/ (before[u][2] = 0 /\ before[u][1] # after[u][1])
                                 THEN ver[u] + 1 ELSE ver[u]]
    IN  /\ g' = after /\ ver' = ver1
        /\ commitT' = IF t # NoTime THEN t ELSE commitT
        /\ started' = (started \/ (h \in Handlers /\ Kind(h) = "start_of_run"))
        /\ viol' = viol \cup c13 \cup c08 \cup c07 \cup c17m \cup c12 \cup DescClauses(e)
        /\ UNCHANGED <<pend, running, runids, sched, lastT, cur, nsamp, ncand>>

(* ======================================================================== trash *)
TrashStep(e) ==
    LET hs == Range(e.hids)
        run1 == [h \in Handlers |-> running[h] /\ h \notin hs]
        pend1 == [h \in Handlers |-> IF h \in hs THEN [pend[h] EXCEPT !.on = FALSE] ELSE pend[h]]
        stale == {h \in Handlers : run1[h] /\ pend1[h].on /\ Interaction(Kind(h)) /\ \E u \in pend1[h].us : pend1[h].vers[u] # ver[u]}
    IN  /\ running' = run1 /\ pend' = pend1
        /\ viol' = viol \cup If(e.prev \notin hs, V("C09", l, "PrevIsTrashed: the committed handler is not among the trashed ones"))
                        \cup If(stale # {}, V("C08", l, "NoStalePending: a candidate survives although the motion of a unit it depends on changed"))
                        \cup If(\E h \in hs : ~running[h], V("C09", l, "trashed a handler that was not running"))
        /\ UNCHANGED <<g, ver, runids, sched, lastT, cur, commitT, started, nsamp, ncand>>

(* ======================================================================== write *)
WriteStep(e) ==
    LET h == e.hid
        t == IF h \in Handlers THEN pend[h].t ELSE NoTime
        isState == e.kind = "state"
        c17 == IF ~isState THEN {} ELSE
               If(\E s \in Range(e.state) : St(s) # g[s[1]] , V("C17", l, "SampleAfterCommit: state handed to the output handler is not the global state after the commit"))
               \cup If(Len(e.state) # N, V("C17", l, "SampleAfterCommit: state handed to the output handler is incomplete"))
               \cup If(\E s \in Range(e.state) : s[3] # 0 /\ ~TKEq(s[4], t), V("C17", l, "AllSliced: a moving unit was not advanced to the sampling / end time"))
               \cup If(h # cur, V("C17", l, "output written for a handler that was not the committed one"))
               \cup If(Has(e, "j") /\ e.j > 0 /\ e.wres > e.j, V("C17", l, "SampleTimes: the j-th written sample is not at j * interval (one rounding per step)"))
    IN  /\ nsamp' = IF isState /\ h \in Handlers THEN [nsamp EXCEPT ![h] = @ + 1] ELSE nsamp
        /\ viol' = viol \cup c17 \cup DescClauses(e)
        /\ UNCHANGED <<g, ver, pend, running, runids, sched, lastT, cur, commitT, started, ncand>>

(* ======================================================================== end *)
EndStep(e) ==
    LET natural == e.reason = "end_of_run"
        c17 == IF ~natural THEN {} ELSE
               UNION {If(Kind(h) = "sampling" /\ ~(ncand[h][1] <= nsamp[h] /\ nsamp[h] <= ncand[h][2]),
                         V("C17", l, "Count: number of samples written is not the number of sampling times before the end"))
                      : h \in Handlers}
               \cup If(cur \in Handlers /\ Kind(cur) = "end_of_run" /\ Has(Meta, "end_time") /\ ~TKEq(pend[cur].t, EndT),
                       V("C17", l, "EndTime: run ended at another time than the configured end time"))
               \cup If(~(cur \in Handlers /\ Kind(cur) = "end_of_run"), V("C17", l, "EndTime: run ended without an end-of-run event"))
        exc == If(e.reason = "exception", V("RUN", l, "run terminated by an exception"))
    IN  /\ viol' = viol \cup c17 \cup exc
        /\ UNCHANGED <<g, ver, pend, running, runids, sched, lastT, cur, commitT, started, nsamp, ncand>>

(* ======================================================================== spec *)
TInit == /\ l = 2 /\ viol = DescClauses(Meta)
         /\ g = [u \in Units |-> St(Meta.state[u])]
         /\ ver = [u \in Units |-> 0]
         /\ pend = [h \in Handlers |-> NoPend]
         /\ running = [h \in Handlers |-> FALSE]
         /\ runids = [h \in Handlers |-> <<>>]
         /\ sched = [h \in Handlers |-> NoTime]
         /\ lastT = <<KNegInf, KNegInf>> /\ commitT = <<KNegInf, KNegInf>>
         /\ cur = 0 /\ started = FALSE
         /\ nsamp = [h \in Handlers |-> 0] /\ ncand = [h \in Handlers |-> <<0, 0>>]
         /\ vres = [i \in {vd[1] : vd \in Range(Meta.veldesc)} |-> 0]

TStep == /\ l <= Len(Log)
         /\ LET e == Log[l] IN
            CASE Has(e, "hid") /\ e.ev \in {"time", "push", "strash", "out"} /\ e.hid \notin Handlers ->
                     /\ viol' = viol \cup V("C06", l, "call for an event handler that the activator does not own")
                     /\ UNCHANGED <<g, ver, pend, running, runids, sched, lastT, cur, commitT, started, nsamp, ncand>>
              [] e.ev = "run"    -> RunStep(e)
              [] e.ev = "time"   -> TimeStep(e)
              [] e.ev = "push"   -> PushStep(e)
              [] e.ev = "next"   -> NextStep(e)
              [] e.ev = "strash" -> STrashStep(e)
              [] e.ev = "out"    -> OutStep(e)
              [] e.ev = "commit" -> CommitStep(e)
              [] e.ev = "trash"  -> TrashStep(e)
              [] e.ev = "write"  -> WriteStep(e)
              [] e.ev = "end"    -> EndStep(e)
              [] OTHER -> UNCHANGED <<viol, g, ver, pend, running, runids, sched, lastT, cur, commitT, started, nsamp, ncand>>
         /\ vres' = vres1(Log[l])
         /\ l' = l + 1

TSpec == TInit /\ [][TStep]_vars
Report == l <= Len(Log) \/ PrintT(<<"VERDICT", Len(Log), viol>>)
=============================================================================
