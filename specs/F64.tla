-------------------------------- MODULE F64 --------------------------------
(***************************************************************************)
(* IEEE-754 doubles inside TLC (whose integers are 32 bit): a double x is  *)
(* represented by the order-preserving 64-bit key                          *)
(*     k(x) = bits(x) XOR (sign(x) ? 0xFFFF...F : 0x8000...0)              *)
(* split into three limbs <<a, b, c>> of 21 + 21 + 22 bits.  k is strictly *)
(* monotone on the non-NaN doubles (-0.0 is logged as +0.0), so <, = and   *)
(* "next representable double" are exact integer operations.  NaN is the   *)
(* marker <<-1, -1, -1>>, for which every order predicate is FALSE.        *)
(* harness/f64.py computes the keys.                                       *)
(***************************************************************************)
EXTENDS Integers

KNaN    == <<-1, -1, -1>>
KZero   == <<1048576, 0, 0>>          \* +0.0
KOne    == <<1572352, 0, 0>>          \* 1.0
KPosInf == <<2096640, 0, 0>>          \* +inf
KNegInf == <<511, 2097151, 4194303>>  \* -inf

IsNaN(x) == x = KNaN
KLt(x, y) == /\ ~IsNaN(x) /\ ~IsNaN(y)
             /\ \/ x[1] < y[1]
                \/ (x[1] = y[1] /\ (x[2] < y[2] \/ (x[2] = y[2] /\ x[3] < y[3])))
KLe(x, y) == ~IsNaN(x) /\ ~IsNaN(y) /\ ~KLt(y, x)
KEq(x, y) == ~IsNaN(x) /\ x = y
KSucc(x) == IF x[3] < 4194303 THEN <<x[1], x[2], x[3] + 1>>
            ELSE IF x[2] < 2097151 THEN <<x[1], x[2] + 1, 0>>
            ELSE <<x[1] + 1, 0, 0>>
KFinite(x) == ~IsNaN(x) /\ KLt(KNegInf, x) /\ KLt(x, KPosInf)

(* Time = <<quotient key, remainder key>>, ordered quotient first (base/time.py, heap.c) *)
TKLt(s, t) == KLt(s[1], t[1]) \/ (KEq(s[1], t[1]) /\ KLt(s[2], t[2]))
TKEq(s, t) == KEq(s[1], t[1]) /\ KEq(s[2], t[2])
TKInf == <<KPosInf, KPosInf>>
=============================================================================
