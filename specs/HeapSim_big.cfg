SPECIFICATION SimSpec
CONSTANTS
  Handlers <- H40
  Times <- T13
  Tolerant = FALSE
  InitSize = 64
  MaxCounter = 2
  MaxLen = 200
  Cap = 256
  OneShot = TRUE
  GetWeight = 4
  TrashWeight = 2
  Depth = 400
CONSTRAINT Bounded
INVARIANT Emit
CHECK_DEADLOCK FALSE
