SPECIFICATION SimSpec
CONSTANTS
  NRoots = 2
  NLeaves = 4
  Box = 128
  Dims = 2
  MaxTime = 12
  Depth = 30
INVARIANT Emit
INVARIANT RootVelocityIsWeightedSum
INVARIANT Barycentre
CHECK_DEADLOCK FALSE
