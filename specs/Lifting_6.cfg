SPECIFICATION Spec
CONSTANTS
  MaxLen = 6
  MaxRate = 2
INVARIANT ChosenNegative
INVARIANT RandomPositionInRange
INVARIANT ResetClears
INVARIANT NegativeListMatches
INVARIANT EmitTable
CHECK_DEADLOCK FALSE
