SPECIFICATION SimSpec
CONSTANTS
  NRoots = 3
  NLeaves = 2
  Box = 128
  Dims = 2
  MaxTime = 12
  Depth = 30
INVARIANT Emit
INVARIANT RootVelocityIsWeightedSum
INVARIANT Barycentre
CHECK_DEADLOCK FALSE
