------------------------------ MODULE MultiProc ------------------------------
(***************************************************************************)
(* mediator/multi_process_mediator/multi_process_mediator.py + or_event.py *)
(*                                                                         *)
(* Processes: the mediator (MultiProcessMediator.run, one action per step  *)
(* of its loop) and one worker per event handler (run_in_process).  Pipes  *)
(* are FIFO queues, multiprocessing.Event objects are booleans; the        *)
(* or-event's _changed() is the non-atomic read-then-write it is in the    *)
(* worker (the mediator's own set()+_changed() is atomic here).  The       *)
(* activator and the scheduler are the environment: any set of not-running *)
(* handlers may be started in a leg, any pending handler may be selected,  *)
(* any set of running handlers containing the selected one may be trashed. *)
(*                                                                         *)
(* Message payloads are the generation of the in-state they were computed  *)
(* from, so that `the committed out-state was computed from the current    *)
(* in-state' (C20: pre-computed out-states used or discarded) is a state   *)
(* predicate.                                                              *)
(***************************************************************************)
EXTENDS Integers, Sequences, FiniteSets, TLC

CONSTANTS Handlers,      \* set of handler ids
          OutArgs,       \* handlers whose send_out_state takes arguments (never computed ahead of time)
          Cores,         \* number_cores (>= 2)
          MaxLegs,
          BlockingDiscard   \* TRUE: the code as it is (pipe.recv() when a trashed handler is in out_state_started)

VARIABLES mpc, stage, startEv, contEv, orEv, toW, toM, gen, running, pushed, outStates, timeQ, toRun, toSend, recvd,
          sel, toTrash, legs, sem, wpc, wread, wgen, err

vars == <<mpc, stage, startEv, contEv, orEv, toW, toM, gen, running, pushed, outStates, timeQ, toRun, toSend, recvd,
          sel, toTrash, legs, sem, wpc, wread, wgen, err>>

None == 0

Init == /\ mpc = "start"
        /\ stage = [h \in Handlers |-> "idle"]
        /\ startEv = [h \in Handlers |-> FALSE] /\ contEv = [h \in Handlers |-> FALSE] /\ orEv = [h \in Handlers |-> FALSE]
        /\ toW = [h \in Handlers |-> <<>>] /\ toM = [h \in Handlers |-> <<>>]
        /\ gen = [h \in Handlers |-> 0]
        /\ running = {} /\ pushed = {}
        /\ outStates = [h \in Handlers |-> None]
        /\ timeQ = <<>> /\ toRun = {} /\ toSend = {} /\ recvd = 0 /\ sel = None /\ toTrash = {}
        /\ legs = 0 /\ sem = Cores - 1
        /\ wpc = [h \in Handlers |-> "w1"] /\ wread = [h \in Handlers |-> <<FALSE, FALSE>>] /\ wgen = [h \in Handlers |-> 0]
        /\ err = {}

Or(s, c) == s \/ c

(* ======================================================================== mediator *)
MStart ==   \* activator.get_event_handlers_to_run
    /\ mpc = "start"
    /\ \E S \in SUBSET (Handlers \ running) :
          /\ S # {} \/ pushed # {}
          /\ toRun' = S /\ toSend' = S /\ running' = running \cup S
    /\ mpc' = "send" /\ recvd' = 0 /\ timeQ' = <<>>
    /\ UNCHANGED <<stage, startEv, contEv, orEv, toW, toM, gen, pushed, outStates, sel, toTrash, legs, sem, wpc, wread, wgen, err>>

MSend ==    \* "Send in-states": start_event.set(); pipe.send(in_state)
    /\ mpc = "send"
    /\ IF toSend = {} THEN /\ mpc' = IF toRun = {} THEN "select" ELSE "recv"
                           /\ UNCHANGED <<stage, startEv, orEv, toW, gen, toSend, err>>
       ELSE \E h \in toSend :
              /\ err' = err \cup (IF stage[h] # "idle" THEN {"MediatorError: event process not ready"} ELSE {})
                            \cup (IF toM[h] # <<>> \/ toW[h] # <<>> THEN {"PipeClean: handler started with a message still in its pipe"} ELSE {})
              /\ startEv' = [startEv EXCEPT ![h] = TRUE]
              /\ orEv' = [orEv EXCEPT ![h] = TRUE]
              /\ gen' = [gen EXCEPT ![h] = @ + 1]
              /\ toW' = [toW EXCEPT ![h] = Append(@, [kind |-> "in", gen |-> gen[h] + 1])]
              /\ stage' = [stage EXCEPT ![h] = "ets"]
              /\ toSend' = toSend \ {h}
              /\ UNCHANGED mpc
    /\ UNCHANGED <<contEv, toM, running, pushed, outStates, timeQ, toRun, recvd, sel, toTrash, legs, sem, wpc, wread, wgen>>

(* start the out-state computation of the handler at the head of pipes_time_received *)
StartNext(q, st, ce, oe, tw) ==
    LET n == Head(q) IN
    [q |-> Tail(q), st |-> [st EXCEPT ![n] = "oss"], ce |-> [ce EXCEPT ![n] = TRUE], oe |-> [oe EXCEPT ![n] = TRUE], tw |-> tw]

MRecv ==    \* one pipe reported by connection.wait
    /\ mpc = "recv"
    /\ IF recvd = Cardinality(toRun) THEN /\ mpc' = "select"
                                          /\ UNCHANGED <<stage, contEv, orEv, toM, pushed, outStates, timeQ, recvd, err>>
       ELSE \E h \in toRun :
              /\ toM[h] # <<>>
              /\ LET msg == Head(toM[h]) IN
                 IF stage[h] = "ets"
                 THEN LET q1 == IF h \in OutArgs THEN timeQ ELSE Append(timeQ, h)
                          r1 == recvd + 1
                          ahead == 0 < Cardinality(toRun) - r1 /\ Cardinality(toRun) - r1 < Cores - 1 /\ q1 # <<>>
                          st1 == [stage EXCEPT ![h] = "susp"]
                          nx == IF ahead THEN StartNext(q1, st1, contEv, orEv, toW) ELSE [q |-> q1, st |-> st1, ce |-> contEv, oe |-> orEv]
                      IN  /\ stage' = nx.st /\ contEv' = nx.ce /\ orEv' = nx.oe /\ timeQ' = nx.q
                          /\ recvd' = r1 /\ pushed' = pushed \cup {h}
                          /\ err' = err \cup (IF msg.kind # "time" THEN {"garbled: out-state read as event time"} ELSE {})
                                        \cup (IF msg.gen # gen[h] THEN {"stale: event time of an older in-state"} ELSE {})
                          /\ UNCHANGED outStates
                 ELSE IF stage[h] = "oss"
                 THEN LET st1 == [stage EXCEPT ![h] = "idle"]
                          nx == IF timeQ # <<>> THEN StartNext(timeQ, st1, contEv, orEv, toW) ELSE [q |-> timeQ, st |-> st1, ce |-> contEv, oe |-> orEv]
                      IN  /\ stage' = nx.st /\ contEv' = nx.ce /\ orEv' = nx.oe /\ timeQ' = nx.q
                          /\ outStates' = [outStates EXCEPT ![h] = msg.gen]
                          /\ err' = err \cup (IF msg.kind # "out" THEN {"garbled: event time read as out-state"} ELSE {})
                          /\ UNCHANGED <<recvd, pushed>>
                 ELSE /\ err' = err \cup {"MediatorError: event process already finished"}
                      /\ UNCHANGED <<stage, contEv, orEv, timeQ, outStates, recvd, pushed>>
              /\ toM' = [toM EXCEPT ![h] = Tail(@)]
              /\ UNCHANGED mpc
    /\ UNCHANGED <<startEv, toW, gen, running, toRun, toSend, sel, toTrash, legs, sem, wpc, wread, wgen>>

MSelect ==  \* scheduler.get_succeeding_event; continue_event.set() if suspended
    /\ mpc = "select"
    /\ \E h \in pushed :
          /\ sel' = h
          /\ IF stage[h] = "susp"
             THEN /\ contEv' = [contEv EXCEPT ![h] = TRUE] /\ orEv' = [orEv EXCEPT ![h] = TRUE]
                  /\ stage' = [stage EXCEPT ![h] = "oss"]
                  /\ toW' = IF h \in OutArgs THEN [toW EXCEPT ![h] = Append(@, [kind |-> "args", gen |-> gen[h]])] ELSE toW
             ELSE UNCHANGED <<contEv, orEv, stage, toW>>
    /\ mpc' = "getout"
    /\ UNCHANGED <<startEv, toM, gen, running, pushed, outStates, timeQ, toRun, toSend, recvd, toTrash, legs, sem, wpc, wread, wgen, err>>

MGetOut ==  \* blocking recv of the selected handler's out-state, then commit
    /\ mpc = "getout"
    /\ IF stage[sel] = "oss"
       THEN /\ toM[sel] # <<>>
            /\ LET msg == Head(toM[sel]) IN
               /\ outStates' = [outStates EXCEPT ![sel] = msg.gen]
               /\ err' = err \cup (IF msg.kind # "out" THEN {"garbled: event time read as out-state"} ELSE {})
                             \cup (IF msg.gen # gen[sel] THEN {"CommitFresh: committed out-state computed from an older in-state"} ELSE {})
            /\ toM' = [toM EXCEPT ![sel] = Tail(@)]
            /\ stage' = [stage EXCEPT ![sel] = "idle"]
       ELSE /\ err' = err \cup (IF outStates[sel] = None THEN {"KeyError: no out-state stored for the selected handler"} ELSE {})
                          \cup (IF outStates[sel] # None /\ outStates[sel] # gen[sel] THEN {"CommitFresh: committed out-state computed from an older in-state"} ELSE {})
                          \cup (IF stage[sel] # "idle" THEN {"assert: selected handler not idle at commit"} ELSE {})
            /\ UNCHANGED <<outStates, toM, stage>>
    /\ mpc' = "trash"
    /\ \E T \in SUBSET running : sel \in T /\ toTrash' = T          \* activator.get_trashable_events
    /\ UNCHANGED <<startEv, contEv, orEv, toW, gen, running, pushed, timeQ, toRun, toSend, recvd, sel, legs, sem, wpc, wread, wgen>>

MTrash ==   \* trash loop, one handler per step (the discarding recv blocks)
    /\ mpc = "trash"
    /\ IF toTrash = {}
       THEN /\ legs' = legs + 1
            /\ mpc' = IF legs + 1 >= MaxLegs THEN "done" ELSE "start"
            /\ UNCHANGED <<stage, toM, running, pushed, outStates, toTrash>>
       ELSE \E h \in toTrash :
              /\ pushed' = pushed \ {h} /\ running' = running \ {h}
              /\ outStates' = [outStates EXCEPT ![h] = None]
              /\ IF stage[h] = "susp" THEN stage' = [stage EXCEPT ![h] = "idle"] /\ UNCHANGED toM
                 ELSE IF stage[h] = "oss"
                      THEN IF BlockingDiscard
                           THEN toM[h] # <<>> /\ toM' = [toM EXCEPT ![h] = Tail(@)] /\ stage' = [stage EXCEPT ![h] = "idle"]
                           ELSE /\ toM' = [toM EXCEPT ![h] = IF @ # <<>> THEN Tail(@) ELSE @]      \* if pipe.poll(): pipe.recv()
                                /\ stage' = [stage EXCEPT ![h] = "idle"]
                      ELSE UNCHANGED <<stage, toM>>
              /\ toTrash' = toTrash \ {h}
              /\ UNCHANGED <<legs, mpc>>
    /\ UNCHANGED <<startEv, contEv, orEv, toW, gen, timeQ, toRun, toSend, recvd, sel, sem, wpc, wread, wgen, err>>

(* ======================================================================== worker h (run_in_process) *)
W(h) ==
    \/ /\ wpc[h] = "w1" /\ orEv[h]                                   \* start_or_continue_event.wait()
       /\ wpc' = [wpc EXCEPT ![h] = "w1chk"]
       /\ UNCHANGED <<startEv, contEv, orEv, toW, toM, sem, wread, wgen, err>>
    \/ /\ wpc[h] = "w1chk"
       /\ IF startEv[h] /\ ~contEv[h]
          THEN /\ startEv' = [startEv EXCEPT ![h] = FALSE]            \* start_event.clear(): _clear() ...
               /\ wpc' = [wpc EXCEPT ![h] = "w1r"] /\ UNCHANGED err
          ELSE /\ err' = err \cup {IF startEv[h] /\ contEv[h] THEN "assert: start and continue both set"
                                   ELSE IF contEv[h] THEN "MediatorError: continue event in idle state"
                                   ELSE "MediatorError: or event fired although no event is set"}
               /\ wpc' = [wpc EXCEPT ![h] = "dead"] /\ UNCHANGED startEv
       /\ UNCHANGED <<contEv, orEv, toW, toM, sem, wread, wgen>>
    \/ /\ wpc[h] \in {"w1r", "w2r"}                                  \* ... _changed(): read both events
       /\ wread' = [wread EXCEPT ![h] = <<startEv[h], contEv[h]>>]
       /\ wpc' = [wpc EXCEPT ![h] = IF wpc[h] = "w1r" THEN "w1w" ELSE "w2w"]
       /\ UNCHANGED <<startEv, contEv, orEv, toW, toM, sem, wgen, err>>
    \/ /\ wpc[h] \in {"w1w", "w2w"}                                  \* ... _changed(): set / clear the or event
       /\ orEv' = [orEv EXCEPT ![h] = Or(wread[h][1], wread[h][2])]
       /\ wpc' = [wpc EXCEPT ![h] = IF wpc[h] = "w1w" THEN "acq" ELSE "oargs"]
       /\ UNCHANGED <<startEv, contEv, toW, toM, sem, wread, wgen, err>>
    \/ /\ wpc[h] = "acq" /\ sem > 0                                  \* semaphore.acquire()
       /\ sem' = sem - 1 /\ wpc' = [wpc EXCEPT ![h] = "rin"]
       /\ UNCHANGED <<startEv, contEv, orEv, toW, toM, wread, wgen, err>>
    \/ /\ wpc[h] = "rin" /\ toW[h] # <<>>                            \* arguments = pipe.recv()
       /\ wgen' = [wgen EXCEPT ![h] = Head(toW[h]).gen]
       /\ err' = err \cup (IF Head(toW[h]).kind # "in" THEN {"garbled: worker read out-state arguments as in-state"} ELSE {})
       /\ toW' = [toW EXCEPT ![h] = Tail(@)]
       /\ wpc' = [wpc EXCEPT ![h] = "stime"]
       /\ UNCHANGED <<startEv, contEv, orEv, toM, sem, wread>>
    \/ /\ wpc[h] = "stime"                                           \* pipe.send(send_event_time(in_state))
       /\ toM' = [toM EXCEPT ![h] = Append(@, [kind |-> "time", gen |-> wgen[h]])]
       /\ wpc' = [wpc EXCEPT ![h] = "rel"]
       /\ UNCHANGED <<startEv, contEv, orEv, toW, sem, wread, wgen, err>>
    \/ /\ wpc[h] = "rel"                                             \* semaphore.release()
       /\ sem' = sem + 1 /\ wpc' = [wpc EXCEPT ![h] = "w2"]
       /\ err' = err \cup (IF sem + 1 > Cores - 1 THEN {"BoundedSemaphore released too often"} ELSE {})
       /\ UNCHANGED <<startEv, contEv, orEv, toW, toM, wread, wgen>>
    \/ /\ wpc[h] = "w2" /\ orEv[h]
       /\ wpc' = [wpc EXCEPT ![h] = "w2chk"]
       /\ UNCHANGED <<startEv, contEv, orEv, toW, toM, sem, wread, wgen, err>>
    \/ /\ wpc[h] = "w2chk"
       /\ IF startEv[h] /\ ~contEv[h] THEN /\ wpc' = [wpc EXCEPT ![h] = "w1"] /\ UNCHANGED <<contEv, err>>    \* `continue'
          ELSE IF contEv[h] /\ ~startEv[h]
               THEN /\ contEv' = [contEv EXCEPT ![h] = FALSE] /\ wpc' = [wpc EXCEPT ![h] = "w2r"] /\ UNCHANGED err
               ELSE /\ err' = err \cup {IF startEv[h] THEN "assert: start and continue both set"
                                        ELSE "MediatorError: or event fired although no event is set"}
                    /\ wpc' = [wpc EXCEPT ![h] = "dead"] /\ UNCHANGED contEv
       /\ UNCHANGED <<startEv, orEv, toW, toM, sem, wread, wgen>>
    \/ /\ wpc[h] = "oargs"                                           \* send_out_state: recv arguments if it takes any
       /\ IF h \in OutArgs
          THEN /\ toW[h] # <<>>
               /\ err' = err \cup (IF Head(toW[h]).kind # "args" THEN {"garbled: worker read an in-state as out-state arguments"} ELSE {})
               /\ toW' = [toW EXCEPT ![h] = Tail(@)]
          ELSE UNCHANGED <<toW, err>>
       /\ wpc' = [wpc EXCEPT ![h] = "sout"]
       /\ UNCHANGED <<startEv, contEv, orEv, toM, sem, wread, wgen>>
    \/ /\ wpc[h] = "sout"                                            \* pipe.send(out_state)
       /\ toM' = [toM EXCEPT ![h] = Append(@, [kind |-> "out", gen |-> wgen[h]])]
       /\ wpc' = [wpc EXCEPT ![h] = "w1"]
       /\ UNCHANGED <<startEv, contEv, orEv, toW, sem, wread, wgen, err>>

Worker(h) == W(h) /\ UNCHANGED <<mpc, stage, gen, running, pushed, outStates, timeQ, toRun, toSend, recvd, sel, toTrash, legs>>

Done == mpc = "done" /\ UNCHANGED vars                               \* post_run: the workers are terminated
Mediator == MStart \/ MSend \/ MRecv \/ MSelect \/ MGetOut \/ MTrash
Next == (err = {} /\ (Mediator \/ \E h \in Handlers : Worker(h))) \/ Done
Spec == Init /\ [][Next]_vars
FairSpec == Spec /\ WF_vars(Mediator) /\ \A h \in Handlers : WF_vars(Worker(h))

(* ======================================================================== properties (C20) *)
NoError       == err = {}
SemaphoreBound == sem >= 0 /\ sem <= Cores - 1
NoDeadlock    == mpc = "done" \/ err # {} \/ ENABLED (Mediator \/ \E h \in Handlers : Worker(h))
RunCompletes  == <>(mpc = "done" \/ err # {})
=============================================================================
