------------------------------ MODULE TraceSched ------------------------------
(***************************************************************************)
(* Code -> spec at the level of the abstract scheduler (SchedAbs.tla, the  *)
(* reference model of C06; C08's "no candidate survives in the scheduler"  *)
(* rests on it): windows cut out of one very long history of push / trash  *)
(* / get calls on the real HeapScheduler (millions of trashes, so that     *)
(* whatever the implementation does rarely -- counter wrap-around, clean-  *)
(* up or compaction of lazily deleted entries, reallocation -- has         *)
(* happened).  A window starts with an "init" record carrying the live     *)
(* events at that moment; every get must return a handler whose live time  *)
(* is minimal (AGet of SchedAbs), and "empty" exactly when nothing finite  *)
(* is live.  "lt" is the time returned by a ListScheduler that was filled  *)
(* with the live events at the start of the window.                        *)
(*   records: [op, h, q, r, err, ret, live, lt]                            *)
(***************************************************************************)
EXTENDS SchedAbs, Sequences, TLC, Json, IOUtils
VARIABLES l, viol
Log == ndJsonDeserialize(IOEnv.TRACE_FILE)
Has(e, f) == f \in DOMAIN e
InitLive(e) == [h \in Handlers |-> IF \E x \in DOMAIN e.live : e.live[x][1] = h
                                    THEN LET x == CHOOSE y \in DOMAIN e.live : e.live[y][1] = h IN <<e.live[x][2], e.live[x][3]>>
                                    ELSE None]
TStep ==
    /\ l <= Len(Log)
    /\ LET e == Log[l] IN
       CASE e.op = "init" ->
              /\ live' = InitLive(e) /\ lastRet' = <<e.last[1], e.last[2]>> /\ op' = NoOp /\ UNCHANGED viol
         [] e.op = "push" ->
              /\ live' = [live EXCEPT ![e.h] = <<e.q, e.r>>] /\ UNCHANGED <<lastRet, op>>
              /\ viol' = IF live[e.h] # None THEN viol \cup {<<l, "harness: push for a handler that has a live event">>} ELSE viol
         [] e.op = "trash" ->
              /\ live' = [live EXCEPT ![e.h] = None] /\ UNCHANGED <<lastRet, op, viol>>
         [] e.op = "get" ->
              /\ UNCHANGED <<live, op>>
              /\ LET empty == LiveFinite(live) = {}
                     ok == ~empty /\ e.err = "none" /\ e.ret \in Minimal(live)
                 IN  /\ lastRet' = IF ok THEN live[e.ret] ELSE lastRet
                     /\ viol' = viol
                          \cup (IF empty /\ e.err # "empty" THEN {<<l, "get: no finite live event, but the scheduler did not report that it is empty">>} ELSE {})
                          \cup (IF ~empty /\ e.err # "none" THEN {<<l, "get: a finite live event exists, but the scheduler raised">>} ELSE {})
                          \cup (IF ~empty /\ e.err = "none" /\ e.ret \notin Minimal(live)
                                THEN {<<l, "get: the returned handler has no live event with the minimal time (a trashed or later candidate was returned)">>} ELSE {})
                          \cup (IF ok /\ Has(e, "lt") /\ <<e.lt[1], e.lt[2]>> # live[e.ret]
                                THEN {<<l, "get: ListScheduler returned another time than HeapScheduler">>} ELSE {})
    /\ l' = l + 1
TInit == l = 1 /\ viol = {} /\ AInit
TSpec == TInit /\ [][TStep]_<<l, viol, live, lastRet, op>>
Report == l <= Len(Log) \/ PrintT(<<"VERDICT", Len(Log), viol>>)
=============================================================================
