-------------------------------- MODULE Cells --------------------------------
(***************************************************************************)
(* cells/cuboid_cells.py and cuboid_periodic_cells.py as index arithmetic. *)
(* A cell is its identifier tuple <<i_1, .., i_d>> (0-based entries); the  *)
(* implementation's list index is Sum i_k * prod_{j<k} n_j.                *)
(***************************************************************************)
EXTENDS Integers, Sequences, FiniteSets, TLC, Json

CONSTANTS Grids,      \* set of tuples of cells per side
          Layers      \* set of neighbour-layer counts

GridSet == {<<1>>, <<2>>, <<3>>, <<5>>, <<3, 3>>, <<4, 5>>, <<1, 4>>, <<2, 3>>, <<3, 4, 2>>, <<3, 3, 3>>, <<5, 3, 1>>, <<2, 2, 5>>}
Dim(g) == Len(g)
CellsOf(g) == {c \in [1 .. Dim(g) -> 0 .. 12] : \A k \in 1 .. Dim(g) : c[k] < g[k]}
RECURSIVE Weight(_, _)
Weight(g, k) == IF k = 1 THEN 1 ELSE Weight(g, k - 1) * g[k - 1]          \* _cumulative_product
RECURSIVE IndexUpTo(_, _, _)
IndexUpTo(g, c, k) == IF k = 0 THEN 0 ELSE IndexUpTo(g, c, k - 1) + c[k] * Weight(g, k)
Index(g, c) == IndexUpTo(g, c, Dim(g))

Offsets(g, nl) == [1 .. Dim(g) -> (0 - nl) .. nl]

(* periodic *)
PNearby(g, nl, c)      == {[k \in 1 .. Dim(g) |-> (c[k] + o[k]) % g[k]] : o \in Offsets(g, nl)}
PNeighbor(g, c, d, up) == [c EXCEPT ![d] = (@ + (IF up THEN 1 ELSE 0 - 1)) % g[d]]
Relative(g, c, ref)    == [k \in 1 .. Dim(g) |-> (c[k] - ref[k]) % g[k]]
Translate(g, c, rel)   == [k \in 1 .. Dim(g) |-> (c[k] + rel[k]) % g[k]]
(* non periodic *)
InGrid(g, c)           == \A k \in 1 .. Dim(g) : c[k] >= 0 /\ c[k] < g[k]
Nearby(g, nl, c)       == {x \in {[k \in 1 .. Dim(g) |-> c[k] + o[k]] : o \in Offsets(g, nl)} : InGrid(g, x)}
HasNeighbor(g, c, d, up) == IF up THEN c[d] + 1 < g[d] ELSE c[d] - 1 >= 0
Neighbor(g, c, d, up)  == [c EXCEPT ![d] = @ + (IF up THEN 1 ELSE 0 - 1)]

Min(a, b) == IF a < b THEN a ELSE b
RECURSIVE ProdMin(_, _, _)
ProdMin(g, nl, k) == IF k = 0 THEN 1 ELSE ProdMin(g, nl, k - 1) * Min(g[k], 2 * nl + 1)

(* ---------------------------------------- clauses of C16 (relations) *)
TranslateInvertsRelative ==
    \A g \in Grids : \A c \in CellsOf(g), r \in CellsOf(g) :
        Translate(g, r, Relative(g, c, r)) = c /\ Relative(g, Translate(g, c, r), c) = r
NearbySymmetric == \A g \in Grids, nl \in Layers : \A c \in CellsOf(g), e \in CellsOf(g) :
        (e \in PNearby(g, nl, c) <=> c \in PNearby(g, nl, e)) /\ (e \in Nearby(g, nl, c) <=> c \in Nearby(g, nl, e))
NearbyReflexive == \A g \in Grids, nl \in Layers : \A c \in CellsOf(g) : c \in PNearby(g, nl, c) /\ c \in Nearby(g, nl, c)
NearbySize      == \A g \in Grids, nl \in Layers : \A c \in CellsOf(g) : Cardinality(PNearby(g, nl, c)) = ProdMin(g, nl, Dim(g))
NeighborIsLayerOne == \A g \in Grids : \A c \in CellsOf(g), d \in 1 .. Dim(g), up \in BOOLEAN :
        PNeighbor(g, c, d, up) \in PNearby(g, 1, c)
NearbyIsRelativeBall == \A g \in Grids, nl \in Layers : \A c \in CellsOf(g), e \in CellsOf(g) :
        e \in PNearby(g, nl, c) <=> \A k \in 1 .. Dim(g) : (Relative(g, e, c)[k] <= nl \/ Relative(g, e, c)[k] >= g[k] - nl)
IndexBijective == \A g \in Grids : \A c \in CellsOf(g), e \in CellsOf(g) : Index(g, c) = Index(g, e) => c = e
ASSUME TranslateInvertsRelative /\ NearbySymmetric /\ NearbyReflexive /\ NearbySize /\ NeighborIsLayerOne
       /\ NearbyIsRelativeBall /\ IndexBijective

(* ---------------------------------------- a unit hopping from cell to neighbouring cell (cell-boundary events) *)
VARIABLES grid, cell, home, hops
Init == grid \in Grids /\ cell \in CellsOf(grid) /\ home = cell /\ hops = [k \in 1 .. Dim(grid) |-> 0]
Hop(d, up) == /\ cell' = PNeighbor(grid, cell, d, up)
              /\ hops' = [hops EXCEPT ![d] = (@ + (IF up THEN 1 ELSE 0 - 1)) % grid[d]]
              /\ UNCHANGED <<grid, home>>
Next == \E d \in 1 .. Dim(grid), up \in BOOLEAN : Hop(d, up)
Spec == Init /\ [][Next]_<<grid, cell, home, hops>>
Torus == cell = Translate(grid, home, hops) /\ Relative(grid, cell, home) = hops /\ InGrid(grid, cell)

B(b) == IF b THEN 1 ELSE 0
ASSUME TLCSet(7, 0)
(* printed once: the table is a constant, but TLC would re-evaluate (and re-serialise) it in every state *)
EmitTable == TLCGet(7) = 1 \/ (TLCSet(7, 1) /\ PrintT(<<"TABLE", ToJson(
    [grids |-> {[g |-> g,
                 rel |-> {<<Index(g, c), Index(g, r), Index(g, Relative(g, c, r)), Index(g, Translate(g, c, r))>> :
                             c \in CellsOf(g), r \in CellsOf(g)},
                 nb  |-> {<<Index(g, c), d, B(up), Index(g, PNeighbor(g, c, d, up)),
                            IF HasNeighbor(g, c, d, up) THEN Index(g, Neighbor(g, c, d, up)) ELSE 0 - 1>> :
                             c \in CellsOf(g), d \in 1 .. Dim(g), up \in BOOLEAN},
                 near |-> {<<nl, Index(g, c), {Index(g, e) : e \in PNearby(g, nl, c)}, {Index(g, e) : e \in Nearby(g, nl, c)}>> :
                             nl \in Layers, c \in CellsOf(g)},
                 ids |-> {<<Index(g, c), c>> : c \in CellsOf(g)}] : g \in Grids}])>>))
=============================================================================
