SPECIFICATION Spec
CONSTANTS
  Handlers = {1, 2, 3, 4}
  OutArgs = {4}
  Cores = 4
  MaxLegs = 2
  BlockingDiscard = TRUE
INVARIANT NoError
INVARIANT SemaphoreBound
INVARIANT NoDeadlock
CHECK_DEADLOCK FALSE
