------------------------------- MODULE Motion -------------------------------
(***************************************************************************)
(* The velocity / position bookkeeping that the event handlers perform on  *)
(* their out-states (event_handler/abstracts/abstracts.py,                 *)
(* composite_objects.py, end_of_chain_event_handler.py,                    *)
(* root_leaf_unit_active_switcher.py) on an integer lattice: the design    *)
(* level of C07 (continuous motion, one chain) and C12 (composite objects  *)
(* consistent with their point masses).                                    *)
(*                                                                         *)
(* NRoots composite objects with NLeaves point masses each (weight         *)
(* 1/NLeaves).  One spatial dimension of motion per event is enough for    *)
(* the bookkeeping, so positions and velocities are vectors over Dims.     *)
(* Velocities of point masses are NLeaves * e_d (so that the induced       *)
(* velocity of the composite object, weight * velocity, is the integer     *)
(* unit vector); all positions are integers modulo Box.                    *)
(*                                                                         *)
(* A unit is <<r>> (composite object) or <<r, k>> (point mass).  The       *)
(* global state holds pos / vel / ts per unit (vel = Still, ts = NoTs      *)
(* when the unit has no velocity).  Every action is one committed event:   *)
(* extract the in-state (branches), time-slice it to the event time, apply *)
(* the handler's change, insert.  Units outside the in-state are not       *)
(* touched (their time stamps stay older) -- exactly as in the code.       *)
(***************************************************************************)
EXTENDS Integers, Sequences, FiniteSets, TLC, Json

CONSTANTS NRoots, NLeaves, Box, Dims, MaxTime

Roots  == 1 .. NRoots
Leaves == {<<r, k>> : r \in Roots, k \in 1 .. NLeaves}
RootU  == {<<r>> : r \in Roots}
Units  == RootU \cup Leaves
RootOf(u) == <<u[1]>>
KidsOf(r) == {<<r[1], k>> : k \in 1 .. NLeaves}
Still == [d \in 1 .. Dims |-> 0]
NoTs  == 0 - 1
E(d, s) == [i \in 1 .. Dims |-> IF i = d THEN s ELSE 0]
Plus(a, b) == [i \in 1 .. Dims |-> a[i] + b[i]]
Scale(a, n) == [i \in 1 .. Dims |-> a[i] * n]
Wrap(p) == [i \in 1 .. Dims |-> p[i] % Box]

VARIABLES pos, vel, ts, now, op
vars == <<pos, vel, ts, now, op>>

Moving(u) == vel[u] # Still
ActiveLeaves == {u \in Leaves : Moving(u)}
(* branch of an identifier: the unit, its ancestors, its descendants *)
Branch(u) == IF Len(u) = 1 THEN {u} \cup KidsOf(u) ELSE {u, RootOf(u)}

(* ---- time slicing of a set of units to time t: x += v * (t - stamp), stamp := t  (only moving units) *)
SlicedPos(S, t) == [u \in Units |-> IF u \in S /\ Moving(u) THEN Wrap(Plus(pos[u], Scale(vel[u], t - ts[u]))) ELSE pos[u]]
SlicedTs(S, t)  == [u \in Units |-> IF u \in S /\ Moving(u) THEN t ELSE ts[u]]

(* ---- induced change of the composite objects: change[r] = sum over its point masses of (new - old velocity) / NLeaves.
        _commit_sub_tree_non_leaf_velocity_change: a resting object starts with stamp t, a moving one is sliced first
        (it is part of the in-state) and rests again when its velocity vanishes. *)
Induced(r, oldv, newv) ==
    LET ks == KidsOf(r)
        RECURSIVE Sum(_)
        Sum(S) == IF S = {} THEN Still
                  ELSE LET k == CHOOSE x \in S : TRUE IN
                       Plus(Sum(S \ {k}), [i \in 1 .. Dims |-> (newv[k][i] - oldv[k][i]) \div NLeaves])
    IN  Sum(ks)

(* Apply new point-mass velocities `nv' (a function on a set of leaves) at time t with in-state units S. *)
Commit(S, t, nv, name, args) ==
    LET p1 == SlicedPos(S, t)
        t1 == SlicedTs(S, t)
        leafVel == [u \in Leaves |-> IF u \in DOMAIN nv THEN nv[u] ELSE vel[u]]
        touchedRoots == {RootOf(u) : u \in DOMAIN nv}
        rootVel == [r \in RootU |-> IF r \in touchedRoots THEN Plus(vel[r], Induced(r, vel, leafVel)) ELSE vel[r]]
        vel1 == [u \in Units |-> IF Len(u) = 1 THEN rootVel[u] ELSE leafVel[u]]
        ts1 == [u \in Units |-> IF vel1[u] = Still THEN NoTs ELSE IF u \in S THEN t ELSE ts[u]]
    IN  /\ pos' = p1 /\ vel' = vel1 /\ ts' = ts1 /\ now' = t
        /\ op' = [name |-> name, t |-> t, args |-> args]

Dir(v) == CHOOSE d \in 1 .. Dims : v[d] # 0
RootMode == Cardinality(ActiveLeaves) > 1

Offset(k) == (IF k % 2 = 1 THEN 1 ELSE 0 - 1) * ((k + 1) \div 2)          \* +1, -1, +2, -2, ...: sums to zero
Init == /\ pos = [u \in Units |-> [d \in 1 .. Dims |-> IF Len(u) = 1 THEN (4 * u[1]) % Box
                                                      ELSE (4 * u[1] + Offset(u[2])) % Box]]
        /\ vel = [u \in Units |-> Still] /\ ts = [u \in Units |-> NoTs]
        /\ now = 0 /\ op = [name |-> "init", t |-> 0, args |-> <<>>]

(* start of run: the point mass <<1, 1>> starts to move along direction 1 *)
Start == /\ ActiveLeaves = {} /\ now = 0
         /\ Commit(Branch(<<1, 1>>), 0, (<<1, 1>> :> E(1, NLeaves)), "start", <<>>)

(* a confirmed pair event in point-mass mode: the velocity object moves from a to b (_exchange_velocity) *)
Lift(b, dt) ==
    /\ Cardinality(ActiveLeaves) = 1
    /\ LET a == CHOOSE u \in ActiveLeaves : TRUE IN
       /\ b \in Leaves \ {a} /\ now + dt <= MaxTime
       /\ Commit(Branch(a) \cup Branch(b), now + dt, (a :> Still) @@ (b :> vel[a]), "lift", <<a, b>>)

(* an unconfirmed / pure time-slicing event on the same in-state *)
Slice(b, dt) ==
    /\ ActiveLeaves # {} /\ now + dt <= MaxTime
    /\ LET a == CHOOSE u \in ActiveLeaves : TRUE IN
       /\ b \in Leaves \ ActiveLeaves
       /\ Commit(Branch(a) \cup Branch(b), now + dt, <<>>, "slice", <<a, b>>)

(* composite-object mode: all point masses of r move; the motion passes to object s (_pass_composite_object_velocity) *)
Pass(s, dt) ==
    /\ RootMode /\ now + dt <= MaxTime
    /\ LET r == RootOf(CHOOSE u \in ActiveLeaves : TRUE)
           v == vel[CHOOSE u \in ActiveLeaves : TRUE] IN
       /\ s \in RootU \ {r}
       /\ Commit(Branch(r) \cup Branch(s), now + dt,
                 [u \in KidsOf(r) \cup KidsOf(s) |-> IF RootOf(u) = r THEN Still ELSE v], "pass", <<r, s>>)

(* mode switches (RootLeafUnitActiveSwitcher) *)
ToRoot(dt) ==
    /\ Cardinality(ActiveLeaves) = 1 /\ NLeaves > 1 /\ now + dt <= MaxTime
    /\ LET a == CHOOSE u \in ActiveLeaves : TRUE IN
       Commit(Branch(RootOf(a)), now + dt, [u \in KidsOf(RootOf(a)) |-> vel[a]], "to_root", <<RootOf(a)>>)
ToLeaf(k, dt) ==
    /\ RootMode /\ now + dt <= MaxTime
    /\ LET r == RootOf(CHOOSE u \in ActiveLeaves : TRUE) IN
       /\ k \in KidsOf(r)
       /\ Commit(Branch(r), now + dt, [u \in KidsOf(r) |-> IF u = k THEN vel[k] ELSE Still], "to_leaf", <<r, k>>)

(* end of chain: new direction (cyclic), new active point mass / object *)
EndOfChain(n, dt) ==
    /\ ActiveLeaves # {} /\ now + dt <= MaxTime
    /\ LET a == CHOOSE u \in ActiveLeaves : TRUE
           v == vel[a]
           nvv == E((Dir(v) % Dims) + 1, v[Dir(v)])
           old == IF RootMode THEN RootOf(a) ELSE a
           newLeaves == IF RootMode THEN KidsOf(n) ELSE {n}
           S == Branch(old) \cup Branch(n)
       IN  /\ (IF RootMode THEN n \in RootU ELSE n \in Leaves)
           /\ Commit(S, now + dt, [u \in ActiveLeaves \cup newLeaves |-> IF u \in newLeaves THEN nvv ELSE Still],
                     "end_of_chain", <<old, n>>)

(* sampling: time-slice the extracted active state *)
Sample(dt) ==
    /\ ActiveLeaves # {} /\ now + dt <= MaxTime
    /\ LET a == CHOOSE u \in ActiveLeaves : TRUE
           id == IF RootMode THEN RootOf(a) ELSE a IN
       Commit(Branch(id), now + dt, <<>>, "sample", <<id>>)

Next == \/ Start
        \/ \E dt \in 0 .. 2 : \/ \E b \in Leaves : Lift(b, dt) \/ Slice(b, dt)
                              \/ \E s \in RootU : Pass(s, dt)
                              \/ ToRoot(dt) \/ \E k \in Leaves : ToLeaf(k, dt)
                              \/ \E n \in Units : EndOfChain(n, dt)
                              \/ Sample(dt)
Spec == Init /\ [][Next]_vars

(* ---------------------------------------------------------------- clauses of C07 / C12 on the lattice *)
PosAt(u, t) == IF Moving(u) THEN Wrap(Plus(pos[u], Scale(vel[u], t - ts[u]))) ELSE pos[u]
Near(x) == ((x + Box \div 2) % Box) - Box \div 2           \* nearest image of a difference
RootVelocityIsWeightedSum ==
    \A r \in RootU : \A d \in 1 .. Dims :
        vel[r][d] * NLeaves = LET RECURSIVE S(_)
                                  S(T) == IF T = {} THEN 0 ELSE LET k == CHOOSE x \in T : TRUE IN vel[k][d] + S(T \ {k})
                              IN  S(KidsOf(r))
StampIffMoving == \A u \in Units : (ts[u] = NoTs) <=> ~Moving(u)
Barycentre ==
    \A r \in RootU : \A d \in 1 .. Dims :
        LET RECURSIVE S(_)
            S(T) == IF T = {} THEN 0 ELSE LET k == CHOOSE x \in T : TRUE IN Near(PosAt(k, now)[d] - PosAt(r, now)[d]) + S(T \ {k})
        IN  S(KidsOf(r)) = 0
OneChain == \/ ActiveLeaves = {}
            \/ Cardinality(ActiveLeaves) = 1
            \/ \E r \in RootU : ActiveLeaves = KidsOf(r)
OneVelocity == \A a \in ActiveLeaves, b \in ActiveLeaves : vel[a] = vel[b]
SpeedKept == \A a \in ActiveLeaves : \E d \in 1 .. Dims : vel[a] = E(d, NLeaves)
StampsNotInFuture == \A u \in Units : ts[u] <= now

(* ---------------------------------------------------------------- behaviours for the replay *)
=============================================================================
