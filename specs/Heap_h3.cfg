SPECIFICATION Spec
CONSTANTS
  Handlers = {1, 2, 3}
  Times <- T12
  Tolerant = FALSE
  InitSize = 3
  MaxCounter = 1
  MaxLen = 5
  Cap = 16
  OneShot = FALSE
CONSTRAINT Bounded
VIEW View
INVARIANT SentinelOK
INVARIANT HeapOrder
INVARIANT NoJunkUsed
INVARIANT CountersFit
INVARIANT LiveHasEntry
INVARIANT PickleRoundTrip
PROPERTY MemSafeStep
PROPERTY GetStep
PROPERTY Refines
CHECK_DEADLOCK FALSE
