SPECIFICATION Spec
CONSTANTS
  NRoots = 2
  NLeaves = 2
  Box = 16
  Dims = 2
  MaxTime = 4
INVARIANT RootVelocityIsWeightedSum
INVARIANT StampIffMoving
INVARIANT Barycentre
INVARIANT OneChain
INVARIANT OneVelocity
INVARIANT SpeedKept
INVARIANT StampsNotInFuture
CHECK_DEADLOCK FALSE
