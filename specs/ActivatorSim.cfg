SPECIFICATION SimSpec
CONSTANTS
  NTags = 3
  Pool = 2
  MaxGen = 3
  Creates <- Cr3
  Trashes <- Tr3
  Activates <- Ac3
  Deactivates <- De3
  Depth = 25
INVARIANT Emit
CHECK_DEADLOCK FALSE
