SPECIFICATION Spec
CONSTANTS
  MaxB = 2
  K = 3
  NRoots = 2
INVARIANT ActiveInEveryInState
INVARIANT EmitTable
CHECK_DEADLOCK FALSE
