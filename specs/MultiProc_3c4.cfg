SPECIFICATION FairSpec
CONSTANTS
  Handlers = {1, 2, 3}
  OutArgs = {}
  Cores = 4
  MaxLegs = 2
  BlockingDiscard = TRUE
INVARIANT NoError
INVARIANT SemaphoreBound
INVARIANT NoDeadlock
PROPERTY RunCompletes
CHECK_DEADLOCK FALSE
