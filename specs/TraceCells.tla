------------------------------ MODULE TraceCells ------------------------------
(***************************************************************************)
(* C16, float side: the extents the real CuboidCells / CuboidPeriodicCells *)
(* record for each cell and the results of position_to_cell at the extreme *)
(* floats next to cell and box boundaries, judged on F64 keys.  One grid    *)
(* direction at a time (the grid is a product of 1-D partitions).           *)
(*   grid  record: L, n, mins[1..n], maxs[1..n] (keys)                      *)
(*   probe record: x (key), cell (0-based index returned, -1 on exception)  *)
(***************************************************************************)
EXTENDS F64, Sequences, FiniteSets, TLC, Json, IOUtils
VARIABLES l, viol, ext
Log == ndJsonDeserialize(IOEnv.TRACE_FILE)

GridClauses(e) ==
    (IF \E i \in 1 .. e.n : ~KLt(e.mins[i], e.maxs[i]) THEN {<<l, "extent: cell minimum not below cell maximum">>} ELSE {})
    \cup (IF \E i \in 1 .. e.n - 1 : KSucc(e.maxs[i]) # e.mins[i + 1] THEN {<<l, "extent: consecutive cells do not abut (gap or overlap)">>} ELSE {})
    \cup (IF ~KEq(e.mins[1], KZero) THEN {<<l, "extent: first cell does not start at 0">>} ELSE {})
    \cup (IF KSucc(e.maxs[e.n]) # e.L THEN {<<l, "extent: last cell does not reach the largest float below L">>} ELSE {})

Containing(x) == {i \in 1 .. ext.n : KLe(ext.mins[i], x) /\ KLe(x, ext.maxs[i])}
ProbeClauses(e) ==
    (IF e.cell < 0 \/ e.cell >= ext.n THEN {<<l, "position_to_cell: no valid cell returned for a position in [0, L)">>}
     ELSE IF (e.cell + 1) \notin Containing(e.x) THEN {<<l, "position_to_cell: extent of the returned cell does not contain the position">>}
     ELSE {})
    \cup (IF Cardinality(Containing(e.x)) # 1 THEN {<<l, "position in [0, L) lies in the extent of zero or several cells">>} ELSE {})

TStep == /\ l <= Len(Log)
         /\ LET e == Log[l] IN
            IF e.op = "grid" THEN ext' = e /\ viol' = viol \cup GridClauses(e)
            ELSE ext' = ext /\ viol' = viol \cup ProbeClauses(e)
         /\ l' = l + 1
TInit == l = 1 /\ viol = {} /\ ext = [n |-> 0]
TSpec == TInit /\ [][TStep]_<<l, viol, ext>>
Report == l <= Len(Log) \/ PrintT(<<"VERDICT", Len(Log), viol>>)
=============================================================================
