SPECIFICATION Spec
CONSTANTS
  Lengths = {8, 12, 20}
  Span = 3
INVARIANT StaysInBox
INVARIANT SepInHalfBox
PROPERTY MoveIsTranslation
INVARIANT EmitTable
CHECK_DEADLOCK FALSE
