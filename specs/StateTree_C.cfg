SPECIFICATION Spec
CONSTANTS
  MaxDepth = 6
  NVel = 1
  NRoots = 2
  NKids = 0
  Slots = 2
  MaxRef = 14
CONSTRAINT Bounded
VIEW View
INVARIANT BranchShape
INVARIANT NoSharing
INVARIANT IndexConsistent
PROPERTY Isolation
PROPERTY ExtractCurrent
PROPERTY InsertExact
PROPERTY OnlyInsertChangesGlobal
CHECK_DEADLOCK FALSE
