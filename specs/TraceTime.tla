------------------------------ MODULE TraceTime ------------------------------
(***************************************************************************)
(* C14 on arbitrary doubles (order only): evaluations of the real          *)
(* base.time.Time on boundary and random doubles, logged with the          *)
(* order-preserving keys of F64.tla; every clause below is exact integer   *)
(* reasoning on keys.  Rounding bounds are judged on residuals that the    *)
(* recorder measures in exact rational arithmetic (err2: distance of the   *)
(* result from the exact sum in half-ulps of the rounded remainder sum;    *)
(* ulps: distance of a difference from the exact one in ulps of            *)
(* max(1,|difference|)); the bounds are stated here.                       *)
(***************************************************************************)
EXTENDS F64, Sequences, TLC, Json, IOUtils

VARIABLES l, viol
Log == ndJsonDeserialize(IOEnv.TRACE_FILE)

B(b) == IF b THEN 1 ELSE 0
Norm(t) == TKEq(t, TKInf) \/ (KLe(KZero, t[2]) /\ KLt(t[2], KOne) /\ KFinite(t[1]))
TLe(s, t) == TKLt(s, t) \/ TKEq(s, t)

Clauses(e) ==
    CASE e.op = "add" ->
           (IF ~Norm(e.res) \/ e.qint = 0 THEN {<<l, "add: result not normalised (integer quotient, remainder in [0,1))">>} ELSE {})
           \cup (IF e.dneg = 0 /\ TKLt(e.res, e.t) THEN {<<l, "add: adding a non-negative displacement decreased the time">>} ELSE {})
           \cup (IF e.err2 > 1 THEN {<<l, "add: result further than one rounding of the remainder from the exact sum">>} ELSE {})
      [] e.op = "mono" ->
           (IF KLe(e.d1, e.d2) /\ TKLt(e.r2, e.r1) THEN {<<l, "add: not monotone in the displacement">>} ELSE {})
      [] e.op = "cmp" ->
           LET lt == TKLt(e.a, e.b)  eq == TKEq(e.a, e.b) IN
           (IF e.lt # B(lt) THEN {<<l, "__lt__ disagrees with quotient-then-remainder order">>} ELSE {})
           \cup (IF e.le # B(lt \/ eq) THEN {<<l, "__le__ disagrees with quotient-then-remainder order">>} ELSE {})
           \cup (IF e.gt # B(~lt /\ ~eq) THEN {<<l, "__gt__ disagrees with quotient-then-remainder order">>} ELSE {})
           \cup (IF e.ge # B(~lt) THEN {<<l, "__ge__ disagrees with quotient-then-remainder order">>} ELSE {})
           \cup (IF e.eq # B(eq) THEN {<<l, "__eq__ disagrees with quotient-then-remainder order">>} ELSE {})
           \cup (IF e.ne # B(~eq) THEN {<<l, "__ne__ disagrees with quotient-then-remainder order">>} ELSE {})
           \cup (IF e.rat # B(lt) THEN {<<l, "order of normalised times differs from the exact rational order">>} ELSE {})
      [] e.op = "ff" ->
           (IF ~Norm(e.res) \/ e.exact = 0 THEN {<<l, "from_float: not exact / not normalised">>} ELSE {})
      [] e.op = "sub" ->
           (IF e.ulps > 4 THEN {<<l, "__sub__: more than a few ulps from the exact difference">>} ELSE {})
      [] e.op = "addinf" ->
           (IF ~TKEq(e.res, TKInf) THEN {<<l, "infinity is not absorbing">>} ELSE {})
      [] e.op = "infcmp" ->
           (IF e.lt # 1 \/ e.gt # 0 \/ e.eq # 0 THEN {<<l, "infinity is not greater than a finite time">>} ELSE {})

TStep == /\ l <= Len(Log)
         /\ viol' = viol \cup Clauses(Log[l])
         /\ l' = l + 1
TInit == l = 1 /\ viol = {}
TSpec == TInit /\ [][TStep]_<<l, viol>>
Report == l <= Len(Log) \/ PrintT(<<"VERDICT", Len(Log), viol>>)
=============================================================================
