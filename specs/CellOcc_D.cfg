SPECIFICATION Spec
CONSTANTS
  NUnits = 4
  NCells = 3
  Layers = 1
  MaxOcc = 1
  Relevant = {1, 2, 3, 4}
INVARIANT Mirror
INVARIANT IrrelevantNeverRecorded
INVARIANT ActiveSeparate
INVARIANT ActiveRecordedIffRelevant
INVARIANT NoUpdateError
INVARIANT Capacity
INVARIANT NoEmptySurplusList
INVARIANT Partition
