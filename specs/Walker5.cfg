SPECIFICATION Spec
CONSTANTS
  MaxLen = 5
  MaxRate = 3
INVARIANT MassConserved
INVARIANT DrainOnlyAtMean
INVARIANT DoneMatchesOperator
INVARIANT EmitTable
CHECK_DEADLOCK FALSE
