-------------------------------- MODULE Heap --------------------------------
(***************************************************************************)
(* Array-level transcription of scheduler/heap_scheduler/heap.c and of     *)
(* HeapScheduler (heap_scheduler.py).  One action per public entry point;  *)
(* the C loops are recursive operators that thread the heap record H and   *)
(* record the largest array index they touch (`hi'), so that the memory    *)
(* safety clause of C06 is the invariant MemSafe.                          *)
(*                                                                         *)
(* code                                   | here                           *)
(* ---------------------------------------+------------------------------- *)
(* insert (growth, sentinel, bubble up)   | CInsert / BubbleUp             *)
(* bubble_down                            | BubbleDown                     *)
(* root (lazy deletion via callback)      | CRoot                          *)
(* delete_events (scan + re-heapify)      | CDelete / DelScan / Heapify    *)
(* entry(i)                               | CEntry                         *)
(* push_event (inf guard, overflow path)  | Push                           *)
(* trash_event                            | Trash                          *)
(* get_succeeding_event (+ assert)        | Get                            *)
(* __getstate__ / __setstate__            | Repickle                       *)
(***************************************************************************)
EXTENDS Integers, Sequences, FiniteSets, TLC

CONSTANTS Handlers, Times, Tolerant,
          InitSize,     \* first allocation (64 in heap.c)
          MaxCounter,   \* largest C uint (2^32-1 in the code)
          MaxLen,       \* state constraint on the C length field
          Cap,          \* size of the modelled address range (>= every reachable size)
          OneShot       \* TRUE: a handler's counter can overflow only once (what a replay into the real
                        \* code can reach: counters are pre-seeded next to 2^32-1, after the reset they
                        \* are 2^32 trashes away from the next overflow)

VARIABLES H,          \* the C struct: [a, len, size, hi]
          minValid,   \* HeapScheduler._minimal_valid_counter (default 0)
          era,        \* ghost: number of counter resets per handler
          live, lastRet, op

INSTANCE SchedAbs

Sentinel == [q |-> -1000000, r |-> -1000000, h |-> 0, c |-> MaxCounter]   \* also the NULL entry returned by root/entry
Junk     == [q |-> 777, r |-> 777, h |-> -1, c |-> -1]               \* uninitialised memory

ELt(e, f) == e.q < f.q \/ (e.q = f.q /\ e.r < f.r)   \* the strict comparison used everywhere in heap.c

Touch(G, i) == [G EXCEPT !.hi = IF i > @ THEN i ELSE @]
Wr(G, i, e) == Touch([G EXCEPT !.a[i] = e], i)

EmptyHeap == [a |-> [i \in 0 .. Cap - 1 |-> Junk], len |-> 0, size |-> 0, hi |-> -1]

(* ---------------------------------------------------------------- insert *)
RECURSIVE BubbleUp(_, _, _)
BubbleUp(G, pos, e) ==
    LET par == pos \div 2
        G1  == Touch(G, par)
    IN  IF ELt(e, G.a[par])
        THEN BubbleUp(Wr(G1, pos, G.a[par]), par, e)
        ELSE Wr(G1, pos, e)

CInsert(G0, e) ==
    LET pos0 == G0.len
        G1   == [G0 EXCEPT !.len = @ + 1, !.hi = -1]
        grow == G1.len + 1 > G1.size
        G2   == IF grow THEN [G1 EXCEPT !.size = IF G1.size = 0 THEN InitSize ELSE 2 * G1.size] ELSE G1
        first == grow /\ G1.size = 0
        G3   == IF first THEN [Wr(G2, 0, Sentinel) EXCEPT !.len = @ + 1] ELSE G2
        pos  == IF first THEN pos0 + 1 ELSE pos0
    IN  BubbleUp(G3, pos, e)

(* ----------------------------------------------------------- bubble_down *)
RECURSIVE BubbleDown(_, _)
BubbleDown(G, pos) ==
    IF ~(pos < G.len) THEN G
    ELSE LET cmp0  == G.len
             child == 2 * pos
             G1    == Touch(G, cmp0)
             t1    == child < G.len
             G2    == IF t1 THEN Touch(G1, child) ELSE G1
             cmp1  == IF t1 /\ ELt(G.a[child], G.a[cmp0]) THEN child ELSE cmp0
             t2    == child + 1 < G.len
             G3    == IF t2 THEN Touch(G2, child + 1) ELSE G2
             cmp2  == IF t2 /\ ELt(G.a[child + 1], G.a[cmp1]) THEN child + 1 ELSE cmp1
         IN  BubbleDown(Wr(G3, pos, G.a[cmp2]), cmp2)

(* ------------------------------------------------------------------ root *)
(* event_valid_callback returns TRUE when the entry must be deleted         *)
Deleted(mv, e) == mv[e.h] > e.c

RECURSIVE CRootLoop(_, _)
CRootLoop(G, mv) ==
    IF G.len > 1 /\ Deleted(mv, Touch(G, 1).a[1])
    THEN LET n  == G.len - 1
             G1 == Wr(Touch([G EXCEPT !.len = n], n), 1, G.a[n])
         IN  CRootLoop(BubbleDown(G1, 1), mv)
    ELSE G

CRoot(G0, mv) == CRootLoop([G0 EXCEPT !.hi = -1], mv)
RootEntry(G)  == IF G.len > 1 THEN G.a[1] ELSE Sentinel

(* --------------------------------------------------------- delete_events *)
RECURSIVE DelScan(_, _, _)
DelScan(G, h, i) ==
    IF ~(i < G.len) THEN G
    ELSE IF Touch(G, i).a[i].h = h
         THEN LET n == G.len - 1 IN DelScan(Wr(Touch([G EXCEPT !.len = n], n), i, G.a[n]), h, i)
         ELSE DelScan(Touch(G, i), h, i + 1)

RECURSIVE Heapify(_, _)
Heapify(G, idx) ==
    IF idx < 1 THEN G
    ELSE Heapify(BubbleDown(Wr(Touch(G, idx), G.len, G.a[idx]), idx), idx - 1)

CDelete(G0, h) == LET G1 == DelScan([G0 EXCEPT !.hi = -1], h, 1) IN Heapify(G1, G1.len \div 2)

(* ----------------------------------------------------------------- entry *)
CEntry(G, i) == IF i + 1 < G.len THEN G.a[i + 1] ELSE Sentinel

(* entries as __getstate__ reads them: entry(0), entry(1), ... until NULL handler *)
RECURSIVE Entries(_, _)
Entries(G, i) == IF CEntry(G, i).h = 0 THEN <<>> ELSE <<CEntry(G, i)>> \o Entries(G, i + 1)

RECURSIVE InsertAll(_, _, _)
InsertAll(G, es, i) == IF i > Len(es) THEN G ELSE InsertAll(CInsert(G, es[i]), es, i + 1)

(* Memory at and beyond `len' is indeterminate between calls: heap.c always writes the  *)
(* spare slot before reading it.  Scrubbing it to Junk keeps that obligation visible    *)
(* (a read of stale memory would surface as Junk in NoJunkUsed / HeapOrder) and keeps   *)
(* the state space finite.                                                               *)
Scrub(G) == [G EXCEPT !.a = [i \in 0 .. Cap - 1 |-> IF i >= G.len /\ i > 0 THEN Junk ELSE G.a[i]]]

(* ============================================================== actions *)
Init == /\ AInit
        /\ H = EmptyHeap
        /\ minValid = [h \in Handlers |-> 0]
        /\ era = [h \in Handlers |-> 0]

Push(h, t) ==
    /\ APush(h, t)
    /\ IF t = PlusInf
       THEN UNCHANGED <<H, minValid, era>>                  \* `if time < inf' guard
       ELSE IF minValid[h] > MaxCounter /\ (OneShot => era[h] = 0)     \* cffi OverflowError
            THEN /\ era' = [era EXCEPT ![h] = IF OneShot THEN @ + 1 ELSE @]
                 /\ H' = Scrub(CInsert(CDelete(H, h), [q |-> t[1], r |-> t[2], h |-> h, c |-> 0]))
                 /\ minValid' = [minValid EXCEPT ![h] = 0]
            ELSE /\ H' = Scrub(CInsert(H, [q |-> t[1], r |-> t[2], h |-> h, c |-> minValid[h]]))
                 /\ UNCHANGED <<minValid, era>>

Trash(h) ==
    /\ ATrash(h)
    /\ minValid' = [minValid EXCEPT ![h] = @ + 1]
    /\ UNCHANGED <<H, era>>

Get ==
    LET G == CRoot(H, minValid)
        e == RootEntry(G)
    IN  /\ H' = Scrub(G)
        /\ UNCHANGED <<minValid, live, era>>
        /\ IF e.h = 0
           THEN /\ op' = [name |-> "get", h |-> 0, t |-> None, err |-> "empty"]
                /\ UNCHANGED lastRet
           ELSE IF TLt(<<e.q, e.r>>, lastRet)
                THEN /\ op' = [name |-> "get", h |-> e.h, t |-> <<e.q, e.r>>, err |-> "decreasing"]
                     /\ UNCHANGED lastRet
                ELSE /\ op' = [name |-> "get", h |-> e.h, t |-> <<e.q, e.r>>, err |-> "none"]
                     /\ lastRet' = <<e.q, e.r>>

Repickle ==
    /\ ARepickle
    /\ H' = Scrub(InsertAll(EmptyHeap, Entries(H, 0), 1))
    /\ UNCHANGED <<minValid, era>>

Next == \/ \E h \in Handlers, t \in Times \cup {PlusInf} : Push(h, t)
        \/ \E h \in Handlers : Trash(h)
        \/ Get
        \/ Repickle

vars == <<H, minValid, era, live, lastRet, op>>
Spec == Init /\ [][Next]_vars

(* ================================================== state constraint *)
Bounded == /\ H.len <= MaxLen
           /\ \A h \in Handlers : minValid[h] <= MaxCounter + 2 /\ era[h] <= 1

(* ================================================== invariants (C06) *)
Used == 1 .. H.len - 1
MemSafe      == H.hi < H.size /\ (H.size > 0 => H.len + 1 <= H.size)
SentinelOK   == H.size > 0 => H.a[0] = Sentinel
HeapOrder    == \A i \in Used : i \div 2 >= 1 => ~ELt(H.a[i], H.a[i \div 2])
NoJunkUsed   == \A i \in Used : H.a[i].h \in Handlers
CountersFit  == \A i \in Used : H.a[i].c >= 0 /\ (H.a[i].c <= MaxCounter \/ (OneShot /\ era[H.a[i].h] > 0))
LiveHasEntry ==
    \A h \in Handlers :
        LET mine == {i \in Used : H.a[i].h = h} IN
        /\ Finite(live[h]) =>
              /\ Cardinality({i \in mine : H.a[i].c = minValid[h]}) = 1
              /\ \A i \in mine : H.a[i].c = minValid[h] => <<H.a[i].q, H.a[i].r>> = live[h]
        /\ ~Finite(live[h]) => \A i \in mine : H.a[i].c < minValid[h]
        /\ \A i \in mine : H.a[i].c <= minValid[h]
PickleRoundTrip ==
    LET G == InsertAll(EmptyHeap, Entries(H, 0), 1) IN
    /\ G.len = (IF H.len = 0 THEN (IF Entries(H, 0) = <<>> THEN 0 ELSE 1) ELSE H.len) \/ (H.len = 1 /\ G.len = 0)
    /\ \A i \in Used : G.a[i] = H.a[i]

(* The exhaustive configurations hide `op' and `H.hi' (pure observation of the last call)   *)
(* behind a VIEW; the clauses that speak about them are therefore stated as action         *)
(* properties, which TLC evaluates on every generated transition, new state or not.        *)
View == <<[H EXCEPT !.hi = 0], minValid, era, live, lastRet>>
MemSafeStep == [][MemSafe']_vars
GetStep     == [][GetReturnsLiveMinimal' /\ EmptyIffNoFiniteLive' /\ ReturnedNeverDecrease']_vars

(* refinement: every behaviour of the array heap is a behaviour of the abstract scheduler *)
Refines == ASpec
=============================================================================
