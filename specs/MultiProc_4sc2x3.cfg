SPECIFICATION Spec
CONSTANTS
  Handlers = {1, 2, 3, 4}
  OutArgs = {4}
  Cores = 2
  MaxLegs = 3
  BlockingDiscard = TRUE
INVARIANT NoError
INVARIANT SemaphoreBound
INVARIANT NoDeadlock
CHECK_DEADLOCK FALSE
