------------------------------ MODULE Lockstep ------------------------------
(***************************************************************************)
(* Equality of two recorded commit traces modulo named stutter (C19, C20). *)
(* A and B are sequences of records (commits: handler tag and index,       *)
(* candidate time key, written unit states as float keys; writes: the      *)
(* state handed to the output handler as float keys).  A step either       *)
(* skips one stutter record of A (a commit or write of a handler whose tag *)
(* is in `stutter', e.g. the dumping events) or consumes one record of     *)
(* each that agree field by field.  The traces are equal modulo stutter    *)
(* iff both can be consumed completely.                                    *)
(***************************************************************************)
EXTENDS Integers, Sequences, TLC, Json, IOUtils
D == JsonDeserialize(IOEnv.LOCKSTEP_FILE)
A == D.a
B == D.b
Range(s) == {s[k] : k \in DOMAIN s}
VARIABLES i, j
Stutter(x) == x.tag \in Range(D.stutter)
Init == i = 1 /\ j = 1
Skip  == i <= Len(A) /\ Stutter(A[i]) /\ i' = i + 1 /\ j' = j
Match == i <= Len(A) /\ j <= Len(B) /\ ~Stutter(A[i]) /\ A[i] = B[j] /\ i' = i + 1 /\ j' = j + 1
Next == Skip \/ Match
Spec == Init /\ [][Next]_<<i, j>>
Report == (ENABLED Next) \/ PrintT(<<"LOCKSTEP", i, j, Len(A), Len(B)>>)
=============================================================================
