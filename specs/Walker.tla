------------------------------- MODULE Walker -------------------------------
(***************************************************************************)
(* event_handler/walker.py (Walker's alias method) on integer rates.  The  *)
(* rates of a vector of length n are multiplied by n, so that the mean is  *)
(* the integer Sum(rates); _build_table is transcribed with its LIFO pops. *)
(* A table row is <<smallItem, smallRate, largeItem, largeRate>> or        *)
(* <<item, mean>> (single-entry row).  sample_cell draws a row and then    *)
(* w = uniform(0, mean):  w <= row[0].rate -> row[0].item else row[1].item.*)
(***************************************************************************)
EXTENDS Integers, Sequences, FiniteSets, TLC, Json

CONSTANTS MaxLen, MaxRate

RECURSIVE SumSeq(_)
SumSeq(q) == IF q = <<>> THEN 0 ELSE Head(q) + SumSeq(Tail(q))

Vectors == {v \in UNION {[1 .. n -> 0 .. MaxRate] : n \in 1 .. MaxLen} : SumSeq(v) > 0}
N(v)      == Len(v)
Scaled(v) == [i \in DOMAIN v |-> N(v) * v[i]]
Mean(v)   == SumSeq(v)                       \* = sum(Scaled) / n
Total(v)  == N(v) * SumSeq(v)

(* items are <<index, rate>> pairs *)
RECURSIVE Split(_, _, _, _, _)
Split(sv, mean, i, small, large) ==
    IF i > Len(sv) THEN <<small, large>>
    ELSE IF sv[i] > mean THEN Split(sv, mean, i + 1, small, Append(large, <<i, sv[i]>>))
         ELSE Split(sv, mean, i + 1, Append(small, <<i, sv[i]>>), large)

Front(q) == SubSeq(q, 1, Len(q) - 1)
Last(q)  == q[Len(q)]

RECURSIVE Pair(_, _, _, _)
Pair(small, large, mean, table) ==
    IF small # <<>> /\ large # <<>>
    THEN LET s  == Last(small)
             lg == Last(large)
             row == <<s[1], s[2], lg[1], mean - s[2]>>
             rest == lg[2] - (mean - s[2])
             small1 == Front(small)
             large1 == Front(large)
         IN  IF rest < mean THEN Pair(Append(small1, <<lg[1], rest>>), large1, mean, Append(table, row))
             ELSE Pair(small1, Append(large1, <<lg[1], rest>>), mean, Append(table, row))
    ELSE <<small, large, table>>

RECURSIVE Drain(_, _, _)
Drain(list, mean, table) == IF list = <<>> THEN table ELSE Drain(Front(list), mean, Append(table, <<Last(list)[1], mean>>))

Build(v) == LET sv == Scaled(v)
                sp == Split(sv, Mean(v), 1, <<>>, <<>>)
                p  == Pair(sp[1], sp[2], Mean(v), <<>>)
            IN  [table |-> Drain(p[2], Mean(v), Drain(p[1], Mean(v), p[3])), leftSmall |-> p[1], leftLarge |-> p[2]]

Sample(row, w) == IF Len(row) = 2 THEN row[1] ELSE IF w <= 2 * row[2] THEN row[1] ELSE row[3]    \* w doubled draw
Draws(m) == {2 * j + 1 : j \in 0 .. m - 1}
MassIn(tab, m, c) == SumSeq([r \in DOMAIN tab |-> Cardinality({w \in Draws(m) : Sample(tab[r], w) = c})])
Mass(v, c) == MassIn(Build(v).table, Mean(v), c)

(* ---------------------------------------- clauses of C18 (alias table) *)
RowCount        == \A v \in Vectors : Len(Build(v).table) = N(v)
LeftoversAtMean == \A v \in Vectors : LET b == Build(v) IN
                                       (\A i \in DOMAIN b.leftSmall : b.leftSmall[i][2] = Mean(v))
                                       /\ (\A i \in DOMAIN b.leftLarge : b.leftLarge[i][2] = Mean(v))
CellProbability == \A v \in Vectors : LET tab == Build(v).table IN \A c \in DOMAIN v : MassIn(tab, Mean(v), c) = Scaled(v)[c]
ZeroNeverInterior == \A v \in Vectors : LET tab == Build(v).table IN \A c \in DOMAIN v : v[c] = 0 => MassIn(tab, Mean(v), c) = 0
RowsWellFormed  == \A v \in Vectors : LET tab == Build(v).table IN \A r \in DOMAIN tab :
                       LET row == tab[r] IN Len(row) = 4 => row[2] >= 0 /\ row[2] <= Mean(v) /\ row[2] + row[4] = Mean(v)
ASSUME RowCount /\ LeftoversAtMean /\ CellProbability /\ ZeroNeverInterior /\ RowsWellFormed

(* ---------------------------------------- construction as a state machine (one pairing step per transition) *)
VARIABLES vec, small, large, table, phase
Init == /\ vec \in Vectors
        /\ LET sp == Split(Scaled(vec), Mean(vec), 1, <<>>, <<>>) IN small = sp[1] /\ large = sp[2]
        /\ table = <<>> /\ phase = "pair"
Step ==
    \/ /\ phase = "pair" /\ small # <<>> /\ large # <<>>
       /\ LET s == Last(small)  lg == Last(large)  rest == lg[2] - (Mean(vec) - s[2]) IN
          /\ table' = Append(table, <<s[1], s[2], lg[1], Mean(vec) - s[2]>>)
          /\ IF rest < Mean(vec) THEN small' = Append(Front(small), <<lg[1], rest>>) /\ large' = Front(large)
             ELSE small' = Front(small) /\ large' = Append(Front(large), <<lg[1], rest>>)
       /\ UNCHANGED <<vec, phase>>
    \/ /\ phase = "pair" /\ (small = <<>> \/ large = <<>>)
       /\ phase' = "drain" /\ UNCHANGED <<vec, small, large, table>>
    \/ /\ phase = "drain" /\ small # <<>>
       /\ table' = Append(table, <<Last(small)[1], Mean(vec)>>) /\ small' = Front(small) /\ UNCHANGED <<vec, large, phase>>
    \/ /\ phase = "drain" /\ small = <<>> /\ large # <<>>
       /\ table' = Append(table, <<Last(large)[1], Mean(vec)>>) /\ large' = Front(large) /\ UNCHANGED <<vec, small, phase>>
    \/ /\ phase = "drain" /\ small = <<>> /\ large = <<>>
       /\ phase' = "done" /\ UNCHANGED <<vec, small, large, table>>
Spec == Init /\ [][Step]_<<vec, small, large, table, phase>>
MassConserved == SumSeq([i \in DOMAIN small |-> small[i][2]]) + SumSeq([i \in DOMAIN large |-> large[i][2]])
                 + Len(table) * Mean(vec) = Total(vec)
DrainOnlyAtMean == phase = "drain" => (\A i \in DOMAIN small : small[i][2] = Mean(vec)) /\ (\A i \in DOMAIN large : large[i][2] = Mean(vec))
DoneMatchesOperator == phase = "done" => table = Build(vec).table

ASSUME TLCSet(7, 0)
(* printed once: the table is a constant, but TLC would re-evaluate (and re-serialise) it in every state *)
EmitTable == TLCGet(7) = 1 \/ (TLCSet(7, 1) /\ PrintT(<<"TABLE", ToJson([vectors |-> {[v |-> v, mean |-> Mean(v), total |-> Total(v),
                                                     mass |-> LET tab == Build(v).table IN [c \in DOMAIN v |-> MassIn(tab, Mean(v), c)]] : v \in Vectors}])>>))
=============================================================================
