SPECIFICATION SimSpec
CONSTANTS
  NUnits = 4
  NCells = 4
  Layers = 1
  MaxOcc = 0
  Relevant = {1, 2, 3, 4}
  Depth = 30
INVARIANT Emit
CHECK_DEADLOCK FALSE
