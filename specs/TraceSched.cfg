SPECIFICATION TSpec
CONSTANTS
  Handlers <- H40
  Times <- T22
  Tolerant = TRUE
INVARIANT Report
CHECK_DEADLOCK FALSE
