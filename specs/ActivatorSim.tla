---------------------------- MODULE ActivatorSim ----------------------------
EXTENDS Activator
CONSTANT Depth
VARIABLE hist
Finish == op' = [name |-> "finish"] /\ UNCHANGED <<notRunning, running, activated, first, prev, err>>
SimInit == Init /\ hist = <<>>
SimNext == /\ op.name # "finish"          \* one Finish step ends the behaviour (and prints it once)
           /\ IF TLCGet("level") >= Depth \/ err \/ (~first /\ prev = <<0, 0>> /\ \A t \in Tags : running[t] = <<>>) THEN Finish ELSE (Next \/ \E k \in 1 .. 8 : First(1))
           /\ hist' = Append(hist, [op |-> op', nr |-> notRunning', ru |-> running', act |-> activated'])
SimSpec == SimInit /\ [][SimNext]_<<vars, hist>>
Emit == op.name # "finish" \/ PrintT(<<"BEH", ToJson(hist)>>)
=============================================================================
