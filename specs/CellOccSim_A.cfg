SPECIFICATION SimSpec
CONSTANTS
  NUnits = 4
  NCells = 5
  Layers = 1
  MaxOcc = 1
  Relevant = {1, 2, 3, 4}
  Depth = 30
INVARIANT Emit
CHECK_DEADLOCK FALSE
