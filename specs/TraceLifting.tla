----------------------------- MODULE TraceLifting -----------------------------
(***************************************************************************)
(* C05 as the property states it, judged on what the real code selects:    *)
(* for a table of derivatives that sums to zero, every unit of positive    *)
(* derivative as the active one, and one draw per unit piece of the        *)
(* uniform range (mid-points), the number of draws that select unit k,     *)
(* summed over the active units, equals -t[k] (inside-first, outside-      *)
(* first); for the ratio scheme the draws of every single active unit      *)
(* select k exactly -t[k] times out of sum(positive).  No selected unit    *)
(* has a non-negative derivative.  A record is one table:                  *)
(*   [scheme, who (which object / handler produced it), t, sel]            *)
(*   sel = << <<a, <<selected unit per draw>> >>, ... >>                   *)
(*   ends = << <<a, selected at the lower end, at the upper end>>, ... >>  *)
(* The routing itself (which draw goes where) is not prescribed.           *)
(***************************************************************************)
EXTENDS Integers, Sequences, FiniteSets, TLC, Json, IOUtils
VARIABLES l, viol
Log == ndJsonDeserialize(IOEnv.TRACE_FILE)
Range(s) == {s[i] : i \in DOMAIN s}
RECURSIVE SumSeq(_)
SumSeq(q) == IF q = <<>> THEN 0 ELSE Head(q) + SumSeq(Tail(q))
Count(row, k) == Cardinality({j \in DOMAIN row : row[j] = k})
Clauses(e) ==
    LET t == e.t
        neg == {k \in DOMAIN t : t[k] <= 0}
        inflow(k) == SumSeq([i \in DOMAIN e.sel |-> Count(e.sel[i][2], k)])
        badsel == \E i \in DOMAIN e.sel : \E j \in DOMAIN e.sel[i][2] :
                      LET k == e.sel[i][2][j] IN k \notin DOMAIN t \/ t[k] >= 0
    IN  (IF badsel THEN {<<l, "a unit with non-negative derivative (or an unknown unit) was selected at an interior draw">>} ELSE {})
        \cup (IF e.scheme # "ratio" /\ \E k \in neg : inflow(k) # 0 - t[k]
              THEN {<<l, "FlowBalance: summed over the active units, the inflow into a unit differs from the magnitude of its derivative">>} ELSE {})
        \cup (IF e.scheme = "ratio" /\ \E i \in DOMAIN e.sel : \E k \in neg : Count(e.sel[i][2], k) # 0 - t[k]
              THEN {<<l, "FlowBalance (ratio): a unit is not selected in proportion to the magnitude of its derivative">>} ELSE {})
        \cup (IF \E i \in DOMAIN e.ends : \E j \in 2 .. 3 : LET k == e.ends[i][j] IN k \notin DOMAIN t \/ t[k] >= 0
              THEN {<<l, "endpoint: a unit whose derivative is not negative is selected when the draw is exactly an end point of its range">>} ELSE {})
        \cup (IF \E i \in DOMAIN e.sel : Len(e.sel[i][2]) # (IF e.scheme = "ratio" THEN SumSeq([k \in DOMAIN t |-> IF t[k] > 0 THEN t[k] ELSE 0]) ELSE t[e.sel[i][1]])
              THEN {<<l, "harness: wrong number of draws recorded">>} ELSE {})
TStep == l <= Len(Log) /\ viol' = viol \cup Clauses(Log[l]) /\ l' = l + 1
TInit == l = 1 /\ viol = {}
TSpec == TInit /\ [][TStep]_<<l, viol>>
Report == l <= Len(Log) \/ PrintT(<<"VERDICT", Len(Log), viol>>)
=============================================================================
