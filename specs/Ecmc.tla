-------------------------------- MODULE Ecmc --------------------------------
(***************************************************************************)
(* The run-level specification of JeLLyFysh: one leg of the mediator loop  *)
(* (DESIGN.md section 2) over the tagger graph of ONE configuration.       *)
(*                                                                         *)
(* The constants are not written by hand: Cfg is the `init' record that    *)
(* the recorder reads from the live objects the real factory built from    *)
(* the .ini and factor-set files of the working tree (tagger kinds,        *)
(* create / trash / activate / deactivate lists, pool sizes, factor index  *)
(* sets as parsed by FactorTypeMaps, cell systems, tree of units).         *)
(*                                                                         *)
(* Abstraction: times are dropped (any pending candidate may be the        *)
(* earliest); positions are the cell of each relevant unit on a ring;      *)
(* velocities are `who moves': the set of moving point masses.  An event   *)
(* may confirm or not; a confirmed interaction hands the motion to any     *)
(* point mass of its in-state.  Checked: no candidate computed from an     *)
(* outdated trajectory or active cell survives the trash step (C08), the   *)
(* pending candidates after every leg equal what a fresh start generates   *)
(* and pools never run dry (C09), the cell bookkeeping never fails and a   *)
(* cell-boundary candidate is pending for every tracked active unit (C11). *)
(***************************************************************************)
EXTENDS Integers, Sequences, FiniteSets, TLC, EcmcCfg       \* EcmcCfg defines Cfg (generated per configuration)

N     == Len(Cfg.units)
Units == 1 .. N
Tags  == 1 .. Len(Cfg.taggers)
Systems == 1 .. Len(Cfg.cellsys)
Range(s) == {s[i] : i \in DOMAIN s}
Parent(u) == Cfg.parent[u]
KidsF     == [u \in Units |-> {v \in Units : Cfg.parent[v] = u}]
Kids(u)   == KidsF[u]
Leaves    == {u \in Units : Kids(u) = {}}
Roots     == {u \in Units : Parent(u) = 0}
RootOfF   == [u \in Units |-> IF Cfg.parent[u] = 0 THEN u ELSE Cfg.parent[u]]
RootOf(u) == RootOfF[u]
LeavesUnderF == [u \in Units |-> IF KidsF[u] = {} THEN {u} ELSE KidsF[u]]
LeavesUnder(u) == LeavesUnderF[u]
BranchUnitsF == [u \in Units |-> {u} \cup (IF Cfg.parent[u] = 0 THEN {} ELSE {Cfg.parent[u]}) \cup KidsF[u]]
BranchUnits(u) == BranchUnitsF[u]
LevelOf(u) == IF Parent(u) = 0 THEN 1 ELSE 2
Tg(t)   == Cfg.taggers[t]
KindF   == [t \in Tags |-> Cfg.taggers[t].kind]
Kind(t) == KindF[t]
TrashF  == [t \in Tags |-> Range(Cfg.taggers[t].trashes)]
CreateF == [t \in Tags |-> Range(Cfg.taggers[t].creates)]
ActF    == [t \in Tags |-> Range(Cfg.taggers[t].activates)]
DeactF  == [t \in Tags |-> Range(Cfg.taggers[t].deactivates)]
SysF    == [t \in Tags |-> Cfg.taggers[t].sys]
PoolF   == [t \in Tags |-> Cfg.taggers[t].pool]
Interaction(k) == k \in {"factor_map", "excluded_cells", "surplus_cells", "cell_bounding", "cell_veto"}
CellKeyed(k)   == k \in {"excluded_cells", "cell_bounding", "cell_veto", "cell_boundary"}
Tracked(k)     == Interaction(k) \/ k = "cell_boundary"        \* candidates compared by in-state (others: by count)
Sys(s)  == Cfg.cellsys[s]
MaxSide(s) == LET p == Sys(s).per_side IN CHOOSE m \in Range(p) : \A x \in Range(p) : x <= m
(* ring of cells: the largest cell count of the grid, but no larger than needed for non-nearby cells to exist *)
RingF == [s \in Systems |-> IF MaxSide(s) < 2 * Sys(s).layers + 3 THEN MaxSide(s) ELSE 2 * Sys(s).layers + 3]
Ring(s) == RingF[s]
RelevantF == [s \in Systems |-> Range(Cfg.cellsys[s].relevant)]
Relevant(s) == RelevantF[s]
None  == 0 - 1

VARIABLES act,        \* set of moving point masses (leaves)
          cellOf,     \* [Systems -> [relevant unit -> cell]]        true cells
          book,       \* [Systems -> occupancy bookkeeping record]    SingleActiveCellOccupancy
          activated,  \* [Tags -> BOOLEAN]
          running,    \* [Tags -> Seq(candidate)]   candidate = [ids, stale, ck]
          prev,       \* tag of the last committed event (0: before the first leg)
          phase,      \* "select" | "done"
          bad,        \* set of error strings (must stay empty)
          toPlace     \* initial placement still to be chosen

vars == <<act, cellOf, book, activated, running, prev, phase, bad, toPlace>>

(* ------------------------------------------------------------------------ cell occupancy (as CellOcc.tla) *)
NearbyF == [s \in Systems |-> [c \in 0 .. RingF[s] - 1 |-> {(c + o) % RingF[s] : o \in (0 - Cfg.cellsys[s].layers) .. Cfg.cellsys[s].layers}]]
Nearby(s, c) == NearbyF[s][c]
MaxOccF == [s \in Systems |-> Cfg.cellsys[s].maxocc]
Room(s, c, oc) == MaxOccF[s] = 0 \/ Len(oc[c]) < MaxOccF[s]
In(q, x) == \E k \in DOMAIN q : q[k] = x
Remove(q, x) == LET i == CHOOSE k \in DOMAIN q : q[k] = x /\ \A j \in DOMAIN q : q[j] = x => k <= j
                IN  SubSeq(q, 1, i - 1) \o SubSeq(q, i + 1, Len(q))
RECURSIVE Place(_, _, _, _, _)
Place(s, us, co, oc, su) ==
    IF us = {} THEN [occ |-> oc, surplus |-> su, activeId |-> None, activeCell |-> None, err |-> FALSE]
    ELSE LET u == CHOOSE x \in us : \A y \in us : x <= y
             c == co[u] IN
         IF Room(s, c, oc) THEN Place(s, us \ {u}, co, [oc EXCEPT ![c] = Append(@, u)], su)
         ELSE Place(s, us \ {u}, co, oc, [su EXCEPT ![c] = Append(@, u)])
Cellz(s) == 0 .. RingF[s] - 1

(* update(): n = unit of the active branch on the system's level (0: several / none), cn = its true cell *)
Update(s, b, n, cn) ==
    IF n # b.activeId
    THEN LET back == b.activeId # None
             oc1 == IF back /\ Room(s, b.activeCell, b.occ) THEN [b.occ EXCEPT ![b.activeCell] = Append(@, b.activeId)] ELSE b.occ
             su1 == IF back /\ ~Room(s, b.activeCell, b.occ) THEN [b.surplus EXCEPT ![b.activeCell] = Append(@, b.activeId)] ELSE b.surplus
         IN  IF n \in Relevant(s)
             THEN LET inOcc == In(oc1[cn], n)
                      inSur == In(su1[cn], n)
                      oc2 == IF inOcc THEN [oc1 EXCEPT ![cn] = Remove(@, n)] ELSE oc1
                      su2 == IF ~inOcc /\ inSur THEN [su1 EXCEPT ![cn] = Remove(@, n)] ELSE su1
                  IN  [occ |-> oc2, surplus |-> su2, activeId |-> n, activeCell |-> cn, err |-> b.err \/ ~(inOcc \/ inSur)]
             ELSE [occ |-> oc1, surplus |-> su1, activeId |-> None, activeCell |-> None, err |-> b.err]
    ELSE [b EXCEPT !.activeCell = cn]

(* the unit of the active branch that lives on the level of cell system s *)
LevelUnit(s, a) ==
    IF a = {} THEN None
    ELSE IF Sys(s).level = 1 THEN RootOf(CHOOSE u \in a : TRUE)
    ELSE IF Cardinality(a) = 1 THEN CHOOSE u \in a : TRUE ELSE 0       \* 0: several active units on the cell level

(* ------------------------------------------------------------------------ generators (yield_identifiers_send_event_time) *)
RECURSIVE SortedSeq(_)
SortedSeq(S) == IF S = {} THEN <<>> ELSE LET m == CHOOSE x \in S : \A y \in S : x <= y IN <<m>> \o SortedSeq(S \ {m})
Cand(ids, ck) == [ids |-> ids, ck |-> ck]
K == Cfg.nleaves
LeafIndex(u) == Cardinality({v \in Kids(Parent(u)) : v < u})           \* 0-based index among the siblings
LeafOf(r, i) == CHOOSE v \in Kids(r) : LeafIndex(v) = i
Instantiate(line, r, other) == [j \in DOMAIN line |-> IF K = 1 THEN (IF line[j] = 0 THEN r ELSE other)
                                                       ELSE IF line[j] < K THEN LeafOf(r, line[j]) ELSE LeafOf(other, line[j] - K)]
FactorGen(t, a) ==
    LET fm == Tg(t).fmap IN
    IF fm.kind = "all" \/ (fm.kind = "map" /\ K = 1 /\ fm.local = 0)
    THEN UNION {{<<u, v>> : v \in {x \in Leaves : RootOf(x) # RootOf(u)}} : u \in a}
    ELSE IF fm.kind = "map"
    THEN UNION {LET r == RootOf(u)
                    i == IF K = 1 THEN 0 ELSE LeafIndex(u)
                    lines == {ln \in Range(fm.lines) : \E j \in DOMAIN ln : ln[j] = i}
                IN  IF fm.local = 1 THEN {Instantiate(ln, r, r) : ln \in lines}
                    ELSE UNION {{Instantiate(ln, r, o) : ln \in lines} : o \in Roots \ {r}}
                : u \in a}
    ELSE {}

GenA(t, a, bk, actv) ==
    LET k == Kind(t)
        s == SysF[t]
    IN  IF ~actv[t] THEN {}
        ELSE IF k = "factor_map" THEN {Cand(x, None) : x \in FactorGen(t, a)}
        ELSE IF k \in {"excluded_cells", "surplus_cells", "cell_bounding", "cell_veto", "cell_boundary"}
        THEN IF bk[s].activeId = None THEN {}
             ELSE LET ai == bk[s].activeId  ac == bk[s].activeCell IN
                  IF k = "excluded_cells" THEN {Cand(<<ai, o>>, ac) : o \in UNION {Range(bk[s].occ[c]) : c \in Nearby(s, ac)}}
                  ELSE IF k = "surplus_cells" THEN {Cand(<<ai, o>>, None) : o \in UNION {Range(bk[s].surplus[c]) : c \in Cellz(s)}}
                  ELSE IF k = "cell_bounding" THEN {Cand(<<ai>> \o bk[s].occ[c], ac) : c \in {x \in Cellz(s) \ Nearby(s, ac) : bk[s].occ[x] # <<>>}}
                  ELSE {Cand(<<ai>>, ac)}
        ELSE IF k = "active_root_unit" THEN (IF a = {} THEN {} ELSE {Cand(<<RootOf(CHOOSE u \in a : TRUE)>>, None)})
        ELSE IF k = "end_of_chain" THEN (IF a = {} THEN {} ELSE {Cand(SortedSeq(a), None)})
        ELSE {Cand(<<>>, None)}                                   \* NoInStateTagger: sampling, end of run, dumping, start of run

(* ------------------------------------------------------------------------ initial state *)
First(s) == CHOOSE x \in Relevant(s) : \A y \in Relevant(s) : x <= y
ToPlace0 == {<<s, u>> : s \in Systems, u \in Units} \cap {p \in {<<s, u>> : s \in Systems, u \in Units} : p[2] \in Relevant(p[1]) /\ p[2] # First(p[1])}
EmptyBook(s) == [occ |-> [c \in Cellz(s) |-> <<>>], surplus |-> [c \in Cellz(s) |-> <<>>], activeId |-> None, activeCell |-> None, err |-> FALSE]
Init == /\ act = {}
        /\ cellOf = [s \in Systems |-> [u \in Units |-> 0]]
        /\ book = [s \in Systems |-> EmptyBook(s)]
        /\ activated = [t \in Tags |-> TRUE]
        /\ running = [t \in Tags |-> IF Kind(t) = "start_of_run" THEN <<[ids |-> <<>>, ck |-> None, stale |-> FALSE]>> ELSE <<>>]
        /\ prev = 0 /\ bad = {}
        /\ phase = "place" /\ toPlace = ToPlace0

(* placement of the relevant units, one at a time (ring rotation removed by pinning the first unit of each system to cell 0) *)
PlaceOne ==
    /\ phase = "place"
    /\ IF toPlace = {}
       THEN /\ book' = [s \in Systems |-> Place(s, Relevant(s), cellOf[s], [c \in Cellz(s) |-> <<>>], [c \in Cellz(s) |-> <<>>])]
            /\ phase' = "select"
            /\ UNCHANGED <<cellOf, toPlace>>
       ELSE LET p == CHOOSE x \in toPlace : \A y \in toPlace : x[1] < y[1] \/ (x[1] = y[1] /\ x[2] <= y[2]) IN
            /\ \E c \in Cellz(p[1]) : cellOf' = [cellOf EXCEPT ![p[1]][p[2]] = c]
            /\ toPlace' = toPlace \ {p}
            /\ UNCHANGED <<book, phase>>
    /\ UNCHANGED <<act, activated, running, prev, bad>>

SortedCands(S) == LET RECURSIVE F(_)
                      F(T) == IF T = {} THEN <<>> ELSE LET x == CHOOSE y \in T : TRUE IN <<[ids |-> x.ids, ck |-> x.ck, stale |-> FALSE]>> \o F(T \ {x})
                  IN  F(S)

(* ------------------------------------------------------------------------ one leg *)
Count(a, r) == Cardinality({u \in a : RootOf(u) = r})
Changed(a, b) == ((a \ b) \cup (b \ a)) \cup {r \in Roots : Kids(r) # {} /\ Count(a, r) # Count(b, r)}
DepUnits(c) == UNION {BranchUnits(u) : u \in Range(c.ids)}

(* possible sets of moving point masses after the event of tagger t with candidate c *)
Outcomes(t, c) ==
    LET k == Kind(t)
        rootMode == Cardinality(act) > 1
        inLeaves == UNION {LeavesUnder(u) : u \in Range(c.ids)}
    IN  IF k = "start_of_run" THEN {UNION {LeavesUnder(u) : u \in Range(Tg(t).start)}}
        ELSE IF k \in {"factor_map", "excluded_cells", "surplus_cells", "cell_bounding"}
             THEN {act} \cup (IF rootMode \/ Tg(t).rootmode = 1
                              THEN {Kids(r) : r \in {RootOf(u) : u \in inLeaves} \ {RootOf(CHOOSE u \in act : TRUE)}}
                              ELSE {{u} : u \in inLeaves \ act})
        ELSE IF k = "cell_veto"
             THEN LET s == SysF[t]
                      far == UNION {Range(book[s].occ[x]) : x \in Cellz(s) \ Nearby(s, c.ck)}
                  IN  {act} \cup {{u} : u \in UNION {LeavesUnder(o) : o \in far} \ act}
        ELSE IF k = "end_of_chain"
             THEN IF rootMode THEN {Kids(r) : r \in {x \in Roots : Kids(x) # {}}} ELSE {{u} : u \in Leaves}
        ELSE IF k = "active_root_unit"
             THEN IF Tg(t).aim = "root_unit_active" THEN {LeavesUnder(RootOf(CHOOSE u \in act : TRUE))}
                  ELSE {{u} : u \in act}
        ELSE {act}

Leg(t, i) ==
    /\ phase = "select" /\ i \in DOMAIN running[t]
    /\ LET c == running[t][i]
           k == Kind(t)
       IN \E newAct \in Outcomes(t, c) : \E up \in (IF k = "cell_boundary" THEN BOOLEAN ELSE {TRUE}) :
          LET s0 == SysF[t]
              \* ---- commit: who moves, where the active unit of a crossing system is
              crossing == k = "cell_boundary"
              mover == IF crossing THEN book[s0].activeId ELSE None
              cell1 == IF crossing /\ mover # None
                       THEN [cellOf EXCEPT ![s0][mover] = (@ + (IF up THEN 1 ELSE Ring(s0) - 1)) % Ring(s0)]
                       ELSE cellOf
              chg == Changed(act, newAct)
              \* ---- staleness of what is still pending
              mark(tt, x) == IF Interaction(Kind(tt)) \/ Kind(tt) = "cell_boundary"
                             THEN [x EXCEPT !.stale = @ \/ (DepUnits(x) \cap chg # {})
                                                        \/ (crossing /\ CellKeyed(Kind(tt)) /\ SysF[tt] = s0)]
                             ELSE x
              run1 == [tt \in Tags |-> [j \in DOMAIN running[tt] |-> mark(tt, running[tt][j])]]
              \* ---- trash
              run2 == [tt \in Tags |-> IF tt \in TrashF[t] THEN <<>> ELSE run1[tt]]
              stale == \E tt \in Tags : \E j \in DOMAIN run2[tt] : run2[tt][j].stale
              notTrashed == t \notin TrashF[t]
              \* ---- activate
              act1 == [tt \in Tags |-> IF tt \in DeactF[t] THEN FALSE
                                       ELSE IF tt \in ActF[t] THEN TRUE ELSE activated[tt]]
              several == \E s \in Systems : LevelUnit(s, newAct) = 0
              book1 == [s \in Systems |-> IF LevelUnit(s, newAct) \in {0, None} THEN book[s]
                                          ELSE Update(s, book[s], LevelUnit(s, newAct),
                                                      IF LevelUnit(s, newAct) \in Relevant(s) THEN cell1[s][LevelUnit(s, newAct)] ELSE 0)]
              genF == [tt \in Tags |-> IF act1[tt] THEN GenA(tt, newAct, book1, act1) ELSE {}]
              gen(tt) == genF[tt]
              run3 == [tt \in Tags |-> run2[tt] \o (IF tt \in CreateF[t] THEN SortedCands(genF[tt]) ELSE <<>>)]
              dry == \E tt \in Tags : Len(run3[tt]) > PoolF[tt]
              noBoundary == \E tt \in Tags : Kind(tt) = "cell_boundary" /\
                               ~(Len(run3[tt]) = Cardinality(gen(tt)) /\ {Cand(x.ids, x.ck) : x \in Range(run3[tt])} = gen(tt))
              unequal == \E tt \in Tags : Kind(tt) # "start_of_run" /\
                            (IF Tracked(Kind(tt))
                             THEN ~(Len(run3[tt]) = Cardinality(gen(tt)) /\ {Cand(x.ids, x.ck) : x \in Range(run3[tt])} = gen(tt))
                             ELSE Len(run3[tt]) # Cardinality(gen(tt)))
              wrongMode == k = "active_root_unit" /\ ((Tg(t).aim = "root_unit_active") = (Cardinality(act) > 1))
          IN  /\ act' = newAct /\ cellOf' = cell1 /\ book' = book1 /\ activated' = act1
              /\ running' = run3 /\ prev' = t /\ UNCHANGED toPlace
              /\ phase' = IF k = "end_of_run" THEN "done" ELSE "select"
              /\ bad' = bad \cup (IF c.stale THEN {"C08 FreshAtCommit: a stale candidate is committed"} ELSE {})
                            \cup (IF stale /\ k # "end_of_run" THEN {"C08 NoStalePending: a candidate computed from an outdated trajectory or active cell survives the trash step"} ELSE {})
                            \cup (IF notTrashed THEN {"C09 PrevIsTrashed: the committed handler is not trashed"} ELSE {})
                            \cup (IF dry THEN {"C09 NoPoolExhaustion: more event handlers demanded than the tagger owns"} ELSE {})
                            \cup (IF unequal /\ k # "end_of_run" THEN {"C09 PendingEqualsFresh: pending candidates differ from a fresh start"} ELSE {})
                            \cup (IF noBoundary /\ k # "end_of_run" THEN {"C11 CellBoundaryPending: no (or an outdated / duplicate) cell-boundary candidate is pending for the tracked active unit"} ELSE {})
                            \cup (IF several THEN {"C11 several active units on the level of a cell system"} ELSE {})
                            \cup (IF \E s \in Systems : book1[s].err THEN {"C11 occupancy update fails: active unit recorded nowhere"} ELSE {})
                            \cup (IF wrongMode THEN {"mode switcher fires in the mode it aims at"} ELSE {})

Next == PlaceOne \/ \E t \in Tags : \E i \in DOMAIN running[t] : Leg(t, i)
Spec == Init /\ [][Next]_vars

NoBad == bad = {}
(* C11: the bookkeeping mirrors the true cells *)
Mirror == phase = "place" \/ \A s \in Systems : \A u \in Relevant(s) :
             LET cnt(c) == Cardinality({j \in DOMAIN book[s].occ[c] : book[s].occ[c][j] = u})
                           + Cardinality({j \in DOMAIN book[s].surplus[c] : book[s].surplus[c][j] = u})
             IN  IF u = book[s].activeId THEN \A c \in Cellz(s) : cnt(c) = 0
                 ELSE \A c \in Cellz(s) : cnt(c) = (IF c = cellOf[s][u] THEN 1 ELSE 0)
ActiveCellTrue == \A s \in Systems : book[s].activeId # None => book[s].activeCell = cellOf[s][book[s].activeId]
Live == phase \in {"done", "place"} \/ \E t \in Tags : running[t] # <<>>
=============================================================================
