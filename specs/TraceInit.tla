------------------------------- MODULE TraceInit -------------------------------
(***************************************************************************)
(* The initial state of a run as the real random input handlers build it   *)
(* (the state Ecmc.tla / Motion.tla start from): every molecule is inside  *)
(* the box (C07), at rest without time stamps, and its stored root         *)
(* position is the weighted barycentre of its point masses, nearest images *)
(* taken among the point masses (C12: "from the randomly generated initial *)
(* molecules onwards").  Records carry measured facts (harness/            *)
(* drive_input.py, exact rationals).                                       *)
(***************************************************************************)
EXTENDS Integers, Sequences, TLC, Json, IOUtils
VARIABLES l, viol
Log == ndJsonDeserialize(IOEnv.TRACE_FILE)
Clauses(e) ==
    (IF e.inbox = 0 THEN {<<"C07", l, "InBox: a generated position lies outside [0, L)">>} ELSE {})
    \cup (IF e.still = 0 THEN {<<"C07", l, "AtRest: a generated unit carries a velocity or a time stamp before the start of the run">>} ELSE {})
    \cup (IF e.leaves > 0 /\ e.bary > 1 THEN {<<"C12", l, "Barycentre: the generated root position is not the weighted barycentre of its point masses (2^-30 L)">>} ELSE {})
TStep == l <= Len(Log) /\ viol' = viol \cup Clauses(Log[l]) /\ l' = l + 1
TInit == l = 1 /\ viol = {}
TSpec == TInit /\ [][TStep]_<<l, viol>>
Report == l <= Len(Log) \/ PrintT(<<"VERDICT", Len(Log), viol>>)
=============================================================================
