SPECIFICATION SimSpec
CONSTANTS
  MaxDepth = 1000
  NVel = 2
  NRoots = 3
  NKids = 1
  Slots = 2
  MaxRef = 100000
  Depth = 40
INVARIANT Emit
CHECK_DEADLOCK FALSE
