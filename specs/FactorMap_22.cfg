SPECIFICATION Spec
CONSTANTS
  MaxB = 6
  K = 2
  NRoots = 2
INVARIANT ActiveInEveryInState
INVARIANT EmitTable
CHECK_DEADLOCK FALSE
