SPECIFICATION SimSpec
CONSTANTS
  Handlers <- H6
  Times <- T13
  Tolerant = FALSE
  InitSize = 3
  MaxCounter = 2
  MaxLen = 30
  Cap = 32
  OneShot = TRUE
  GetWeight = 4
  TrashWeight = 2
  Depth = 80
CONSTRAINT Bounded
INVARIANT Emit
INVARIANT HeapOrder
INVARIANT LiveHasEntry
CHECK_DEADLOCK FALSE
