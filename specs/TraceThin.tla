------------------------------ MODULE TraceThin ------------------------------
(***************************************************************************)
(* C04, confirmation rule at its boundary: the real thinning handlers are  *)
(* driven on hand-built in-states with scripted event rates (true rate q,  *)
(* bounding rate qb) and the uniform draw u forced to the doubles next to  *)
(* the decision boundary (0, pred(q), q, succ(q), pred(qb)).  Each record  *)
(* carries q, qb, u as order keys and whether the out-state's velocities   *)
(* changed.  "Confirmed with probability exactly max(0, q)/qb" for a       *)
(* uniform draw on [0, qb) means: confirmed iff u < q and q > 0.           *)
(***************************************************************************)
EXTENDS F64, Sequences, TLC, Json, IOUtils
VARIABLES l, viol
Log == ndJsonDeserialize(IOEnv.TRACE_FILE)
Clauses(e) ==
    LET confirm == KLt(e.u, e.q) /\ KLt(KZero, e.q) IN
    (IF (e.changed = 1) # confirm THEN {<<l, "Thinning: event confirmed although u >= q (or q <= 0), or rejected although u < q">>} ELSE {})
    \cup (IF e.changed = 0 /\ e.same = 0 THEN {<<l, "Thinning: an unconfirmed event changed the out-state">>} ELSE {})
    \cup (IF e.drawlo # 0 \/ ~KEq(e.drawhi, e.qb) THEN {<<l, "Thinning: the uniform draw is not taken from [0, bounding rate)">>} ELSE {})
TStep == l <= Len(Log) /\ viol' = viol \cup Clauses(Log[l]) /\ l' = l + 1
TInit == l = 1 /\ viol = {}
TSpec == TInit /\ [][TStep]_<<l, viol>>
Report == l <= Len(Log) \/ PrintT(<<"VERDICT", Len(Log), viol>>)
=============================================================================
