--------------------------- MODULE TraceDomination ---------------------------
(***************************************************************************)
(* C04, domination clause on a lattice of separations: the event rate of   *)
(* the nearest-image 1/r bound (InversePowerCoulombBoundingPotential) and  *)
(* of the periodic Coulomb potential (MergedImageCoulombPotential) are     *)
(* evaluated by the real classes on a lattice of the minimum-image cube    *)
(* that includes its faces and edges and refines geometrically towards     *)
(* them; each record carries the two derivatives as order keys.  The       *)
(* supremum over the continuum is not decided (DESIGN.md 5/C04).           *)
(***************************************************************************)
EXTENDS F64, Sequences, TLC, Json, IOUtils
VARIABLES l, viol
Log == ndJsonDeserialize(IOEnv.TRACE_FILE)
Clauses(e) ==
    (IF KLt(KZero, e.q) /\ ~KLe(e.q, e.qb) THEN {<<l, "Domination: true event rate exceeds the bounding event rate">>} ELSE {})
    \cup (IF KLt(KZero, e.q) /\ ~KLt(KZero, e.qb) THEN {<<l, "Domination: true rate positive where the bounding rate is not">>} ELSE {})
    \cup (IF IsNaN(e.q) \/ IsNaN(e.qb) THEN {<<l, "a potential returned NaN inside the minimum-image cube">>} ELSE {})
TStep == l <= Len(Log) /\ viol' = viol \cup Clauses(Log[l]) /\ l' = l + 1
TInit == l = 1 /\ viol = {}
TSpec == TInit /\ [][TStep]_<<l, viol>>
Report == l <= Len(Log) \/ PrintT(<<"VERDICT", Len(Log), viol>>)
=============================================================================
