------------------------------- MODULE CellOcc -------------------------------
(***************************************************************************)
(* activator/internal_state/single_active_cell_occupancy.py, line by line, *)
(* on a periodic ring of NCells cells (the cell relations themselves are   *)
(* Cells.tla / C16).  Units are 1..NUnits; `Relevant' is the charge        *)
(* filter.  cellOf[u] is the *true* cell of unit u (the cell containing    *)
(* its current position); occ / surplus / activeId / activeCell are the    *)
(* bookkeeping.  The environment is what the run does to it:               *)
(*   Start(a)   first update of the run (a becomes the active unit)        *)
(*   Cross(up)  the active unit crosses into the neighbouring cell (a      *)
(*              cell-boundary event), then update() with the same unit     *)
(*   Lift(w)    a lifting / end-of-chain event makes w the active unit,    *)
(*              positions unchanged, then update()                         *)
(* The generators of the three cell-based tagger families are transcribed  *)
(* for the partition clause of C10.                                        *)
(***************************************************************************)
EXTENDS Integers, Sequences, FiniteSets, TLC, Json

CONSTANTS NUnits, NCells, Layers,
          MaxOcc,       \* maximum_number_occupants; 0 = not bounded
          Relevant      \* SUBSET 1..NUnits

Units == 1 .. NUnits
Cellz == 0 .. NCells - 1
None  == 0 - 1
Error == 0 - 2

VARIABLES cellOf, occ, surplus, hasKey, activeId, activeCell, started, op
(* surplus[c] is the list stored under key c; hasKey[c] says whether the key exists in the dictionary *)

vars == <<cellOf, occ, surplus, hasKey, activeId, activeCell, started, op>>

Nearby(c) == {(c + o) % NCells : o \in (0 - Layers) .. Layers}
Room(c, oc) == Len(oc[c]) < MaxOcc \/ MaxOcc = 0
Remove(q, x) == LET i == CHOOSE k \in DOMAIN q : q[k] = x /\ \A j \in DOMAIN q : q[j] = x => k <= j
                IN  SubSeq(q, 1, i - 1) \o SubSeq(q, i + 1, Len(q))
In(q, x) == \E k \in DOMAIN q : q[k] = x
Front(q) == SubSeq(q, 1, Len(q) - 1)

(* ---- initialize(): units in identifier order *)
RECURSIVE Place(_, _, _, _, _)
Place(u, co, oc, su, hk) ==
    IF u > NUnits THEN [occ |-> oc, surplus |-> su, hasKey |-> hk]
    ELSE IF u \notin Relevant THEN Place(u + 1, co, oc, su, hk)
    ELSE LET c == co[u] IN
         IF Room(c, oc) THEN Place(u + 1, co, [oc EXCEPT ![c] = Append(@, u)], su, hk)
         ELSE Place(u + 1, co, oc, [su EXCEPT ![c] = Append(@, u)], [hk EXCEPT ![c] = TRUE])

Init == /\ cellOf \in [Units -> Cellz]
        /\ LET p == Place(1, cellOf, [c \in Cellz |-> <<>>], [c \in Cellz |-> <<>>], [c \in Cellz |-> FALSE]) IN
           occ = p.occ /\ surplus = p.surplus /\ hasKey = p.hasKey
        /\ activeId = None /\ activeCell = None /\ started = FALSE
        /\ op = [name |-> "init"]

(* ---- update(new active unit n at true cell cn) *)
Update(n, cn) ==
    IF n # activeId
    THEN \* put the previous active unit back into the cell recorded for it
         LET back == activeId # None
             oc1 == IF back /\ Room(activeCell, occ) THEN [occ EXCEPT ![activeCell] = Append(@, activeId)] ELSE occ
             su1 == IF back /\ ~Room(activeCell, occ) THEN [surplus EXCEPT ![activeCell] = Append(@, activeId)] ELSE surplus
             hk1 == IF back /\ ~Room(activeCell, occ) THEN [hasKey EXCEPT ![activeCell] = TRUE] ELSE hasKey
         IN  IF n \in Relevant
             THEN LET inOcc == In(oc1[cn], n)
                      \* try: occupants.remove(n); if not surplus.get(cell, True): occupants.append(surplus[cell].pop())
                      oc2 == IF inOcc THEN [oc1 EXCEPT ![cn] = Remove(@, n)] ELSE oc1
                      promote == inOcc /\ hk1[cn] /\ su1[cn] = <<>>          \* only an existing *empty* list is falsy
                      \* (promote would pop from an empty list: unreachable if NoEmptySurplusList holds)
                      \* except ValueError: surplus[cell].remove(n)
                      su2 == IF ~inOcc THEN [su1 EXCEPT ![cn] = Remove(@, n)] ELSE su1
                      \* if not surplus.get(cell, True): del surplus[cell]
                      hk2 == IF hk1[cn] /\ su2[cn] = <<>> THEN [hk1 EXCEPT ![cn] = FALSE] ELSE hk1
                      raises == promote \/ ~(inOcc \/ (hk1[cn] /\ In(su1[cn], n)))   \* IndexError / KeyError / ValueError
                  IN  IF raises
                      THEN /\ activeId' = Error /\ UNCHANGED <<occ, surplus, hasKey, activeCell>>
                      ELSE /\ occ' = oc2 /\ surplus' = su2 /\ hasKey' = hk2
                           /\ activeId' = n /\ activeCell' = cn
             ELSE /\ occ' = oc1 /\ surplus' = su1 /\ hasKey' = hk1
                  /\ activeId' = None /\ activeCell' = None
    ELSE /\ activeCell' = cn
         /\ UNCHANGED <<occ, surplus, hasKey, activeId>>

Start(a) == /\ ~started /\ started' = TRUE
            /\ Update(a, cellOf[a])
            /\ op' = [name |-> "start", unit |-> a]
            /\ UNCHANGED cellOf

Mover == IF activeId # None THEN activeId ELSE None

(* the unit that is physically moving: tracked separately because an irrelevant active unit is not recorded *)
VARIABLE moving
Cross(up) == /\ started
             /\ LET c2 == (cellOf[moving] + (IF up THEN 1 ELSE NCells - 1)) % NCells IN
                /\ cellOf' = [cellOf EXCEPT ![moving] = c2]
                /\ IF moving \in Relevant THEN Update(moving, c2)
                   ELSE UNCHANGED <<occ, surplus, hasKey, activeId, activeCell>>    \* update() with an irrelevant unit
             /\ op' = [name |-> "cross", up |-> up]
             /\ UNCHANGED <<started, moving>>

Lift(w) == /\ started /\ w # moving
           /\ Update(w, cellOf[w])
           /\ moving' = w
           /\ op' = [name |-> "lift", unit |-> w]
           /\ UNCHANGED <<cellOf, started>>

StartM(a) == Start(a) /\ moving' = a
InitM == Init /\ moving = None
Next == activeId # Error /\
        \/ \E a \in Units : StartM(a)
        \/ \E up \in BOOLEAN : Cross(up)
        \/ \E w \in Units : Lift(w)
Spec == InitM /\ [][Next]_<<vars, moving>>

(* ------------------------------------------------------------------------ clauses of C11 (first sentence) and C10 *)
Count(q, x) == Cardinality({k \in DOMAIN q : q[k] = x})
Recorded(u, c) == Count(occ[c], u) + Count(surplus[c], u)
Mirror == \A u \in Relevant :
             IF u = activeId
             THEN \A c \in Cellz : Recorded(u, c) = 0
             ELSE \A c \in Cellz : Recorded(u, c) = (IF c = cellOf[u] THEN 1 ELSE 0)
IrrelevantNeverRecorded == \A u \in Units \ Relevant : \A c \in Cellz : Recorded(u, c) = 0
ActiveSeparate == (activeId # None) => (activeCell = cellOf[activeId] /\ activeId = moving)
ActiveRecordedIffRelevant == started => ((activeId = None) <=> (moving \notin Relevant))
NoUpdateError == activeId # Error
Capacity == MaxOcc = 0 \/ \A c \in Cellz : Len(occ[c]) <= MaxOcc
NoEmptySurplusList == \A c \in Cellz : hasKey[c] <=> (surplus[c] # <<>>)

(* the three tagger families for the active unit *)
NearbyTargets  == UNION {{occ[c][k] : k \in DOMAIN occ[c]} : c \in Nearby(activeCell)}          \* ExcludedCellsTagger
SurplusTargets == UNION {{surplus[c][k] : k \in DOMAIN surplus[c]} : c \in {x \in Cellz : hasKey[x]}}   \* SurplusCellsTagger
VetoTargets    == UNION {{occ[c][k] : k \in DOMAIN occ[c]} : c \in Cellz \ Nearby(activeCell)}  \* cell veto / cell bounding
Partition == activeId # None =>
                /\ NearbyTargets \cup SurplusTargets \cup VetoTargets = Relevant \ {activeId}
                /\ NearbyTargets \cap SurplusTargets = {} /\ NearbyTargets \cap VetoTargets = {} /\ SurplusTargets \cap VetoTargets = {}
=============================================================================
