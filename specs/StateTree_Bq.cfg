SPECIFICATION Spec
CONSTANTS
  MaxDepth = 5
  NVel = 1
  NRoots = 1
  NKids = 2
  Slots = 2
  MaxRef = 14
CONSTRAINT Bounded
VIEW View
INVARIANT BranchShape
INVARIANT NoSharing
INVARIANT IndexConsistent
PROPERTY Isolation
PROPERTY ExtractCurrent
PROPERTY InsertExact
PROPERTY OnlyInsertChangesGlobal
CHECK_DEADLOCK FALSE
