SPECIFICATION Spec
CONSTANTS
  Grids <- GridSet
  Layers = {0, 1, 2}
INVARIANT Torus
INVARIANT EmitTable
CHECK_DEADLOCK FALSE
