SPECIFICATION SimSpec
CONSTANTS
  NUnits = 4
  NCells = 6
  Layers = 2
  MaxOcc = 1
  Relevant = {1, 3, 4}
  Depth = 30
INVARIANT Emit
CHECK_DEADLOCK FALSE
