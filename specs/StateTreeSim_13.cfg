SPECIFICATION SimSpec
CONSTANTS
  MaxDepth = 1000
  NVel = 2
  NRoots = 1
  NKids = 3
  Slots = 2
  MaxRef = 100000
  Depth = 40
INVARIANT Emit
CHECK_DEADLOCK FALSE
