-------------------------------- MODULE Time --------------------------------
(***************************************************************************)
(* base/time.py on a dyadic lattice (denominator Den): on these values the *)
(* implementation's float operations are exact, so TLC's integer           *)
(* arithmetic *is* the float arithmetic and any difference between code    *)
(* and model is a logic error (carry, branch, operator), not rounding.     *)
(* A time is [q, r] with value q + r/Den; displacements are integers in    *)
(* units of 1/Den.  Quotients are relative to a symbolic offset Q0 that    *)
(* the replay instantiates with 0, 2^31 and 2^52-16.                       *)
(***************************************************************************)
EXTENDS Integers, Sequences, TLC, Json

CONSTANTS Den, QLo, QHi, DLo, DHi

M1 == -1
M16 == -16
BIG  == 100000
InfT == [q |-> BIG, r |-> BIG]        \* Time(inf, inf)
InfD == BIG                           \* float("inf") as displacement

FiniteTimes == [q : QLo .. QHi, r : 0 .. Den - 1]
Times == FiniteTimes \cup {InfT}
Disps == (DLo .. DHi) \cup {InfD}
IsInf(t) == t.q = BIG

(* ------------------------------------------------ transcription of time.py *)
FromFloat(x) == IF x = InfD THEN InfT ELSE [q |-> x \div Den, r |-> x % Den]        \* Time(*divmod(time, 1.0))
Add(t, d) == IF d # InfD THEN [q |-> t.q + ((t.r + d) \div Den), r |-> (t.r + d) % Den]   \* divmod(r + other, 1.0)
             ELSE InfT
Sub(s, t) == (s.q - t.q) * Den + s.r - t.r
Eq(s, t) == s.q = t.q /\ s.r = t.r
Lt(s, t) == s.q < t.q \/ (s.q = t.q /\ s.r < t.r)
Ne(s, t) == ~Eq(s, t)
Gt(s, t) == ~Lt(s, t) /\ Ne(s, t)
Le(s, t) == Lt(s, t) \/ Eq(s, t)
Ge(s, t) == ~Lt(s, t)

Update(t, u) == u                     \* Time.update(other): the object takes the other time's quotient and remainder
Val(t) == t.q * Den + t.r             \* exact value times Den (finite times)

(* ------------------------------------------------ clauses of C14 (operator level) *)
Normalised(t) == IsInf(t) \/ (t.r >= 0 /\ t.r < Den)
AddExact      == \A t \in FiniteTimes, d \in DLo .. DHi : Val(Add(t, d)) = Val(t) + d /\ Normalised(Add(t, d))
AddMonotone   == \A t \in FiniteTimes, d \in 0 .. DHi, e \in 0 .. DHi :
                     d <= e => ~Lt(Add(t, e), Add(t, d))
AddNeverDecreases == \A t \in FiniteTimes, d \in 0 .. DHi : ~Lt(Add(t, d), t)
OrderIsRational ==
    \A s \in FiniteTimes, t \in FiniteTimes :
        /\ Lt(s, t) <=> Val(s) < Val(t)
        /\ Le(s, t) <=> Val(s) <= Val(t)
        /\ Gt(s, t) <=> Val(s) > Val(t)
        /\ Ge(s, t) <=> Val(s) >= Val(t)
        /\ Eq(s, t) <=> Val(s) = Val(t)
        /\ Ne(s, t) <=> Val(s) # Val(t)
InfGreatest  == \A t \in FiniteTimes : Lt(t, InfT) /\ ~Lt(InfT, t) /\ Gt(InfT, t) /\ Ge(InfT, t) /\ ~Eq(InfT, t)
                                       /\ Le(t, InfT) /\ Ne(t, InfT)
InfAbsorbing == \A t \in Times : Add(t, InfD) = InfT
InfReflexive == Eq(InfT, InfT) /\ ~Lt(InfT, InfT) /\ Le(InfT, InfT) /\ Ge(InfT, InfT)
FromFloatExact == \A x \in QLo * Den .. QHi * Den : Val(FromFloat(x)) = x /\ Normalised(FromFloat(x))
SubExact     == \A s \in FiniteTimes, t \in FiniteTimes : Sub(s, t) = Val(s) - Val(t)

ASSUME AddExact /\ AddMonotone /\ AddNeverDecreases /\ OrderIsRational /\ InfGreatest /\ InfAbsorbing
       /\ InfReflexive /\ FromFloatExact /\ SubExact

(* ------------------------------------------------ the clock of a run as a state machine *)
VARIABLE now
Init == now = FromFloat(0)
Advance(d) == now' = Add(now, d)
Reassign(u) == now' = Update(now, u)           \* a time stamp object is overwritten in place (event handlers do this)
Next == \/ \E d \in Disps : ~IsInf(now) /\ Advance(d)
        \/ \E u \in FiniteTimes : Reassign(u)
Spec == Init /\ [][Next]_now
InRange == IsInf(now) \/ (now.q <= QHi /\ now.q >= QLo)
ClockNormalised == Normalised(now)
ClockNeverBack  == [][~Lt(now', now) \/ (\E d \in DLo .. -1 : now' = Add(now, d)) \/ (\E u \in FiniteTimes : now' = u)]_now

(* ------------------------------------------------ evaluation table for the replay into base/time.py *)
B(b) == IF b THEN 1 ELSE 0
Table ==
    [add  |-> [t \in FiniteTimes |-> [d \in Disps |-> Add(t, d)]],
     cmp  |-> [s \in Times |-> [t \in Times |-> <<B(Lt(s, t)), B(Le(s, t)), B(Gt(s, t)), B(Ge(s, t)), B(Eq(s, t)), B(Ne(s, t))>>]],
     sub  |-> [s \in FiniteTimes |-> [t \in FiniteTimes |-> Sub(s, t)]],
     ff   |-> [x \in (QLo * Den .. QHi * Den) \cup {InfD} |-> FromFloat(x)]]
ASSUME TLCSet(7, 0)
(* printed once: the table is a constant, but TLC would re-evaluate (and re-serialise) it in every state *)
EmitTable == TLCGet(7) = 1 \/ (TLCSet(7, 1) /\ PrintT(<<"TABLE", ToJson(
    [adds |-> {<<t.q, t.r, d, Add(t, d).q, Add(t, d).r>> : t \in FiniteTimes, d \in Disps},
     cmps |-> {<<s.q, s.r, t.q, t.r, B(Lt(s, t)), B(Le(s, t)), B(Gt(s, t)), B(Ge(s, t)), B(Eq(s, t)), B(Ne(s, t))>> :
                  s \in Times, t \in Times},
     subs |-> {<<s.q, s.r, t.q, t.r, Sub(s, t)>> : s \in FiniteTimes, t \in FiniteTimes},
     ffs  |-> {<<x, FromFloat(x).q, FromFloat(x).r>> : x \in (QLo * Den .. QHi * Den) \cup {InfD}}])>>))
=============================================================================
