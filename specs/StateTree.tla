------------------------------ MODULE StateTree ------------------------------
(***************************************************************************)
(* state_handler/tree_state_handler.py with TreePhysicalState and          *)
(* TreeLiftingState as an object-identity model.                           *)
(*                                                                         *)
(* Positions, velocities (Python lists) and time stamps (Time objects) are *)
(* mutable objects: `store' maps references to values.  The global state   *)
(* holds a reference per field; an extracted branch holds its own          *)
(* references (copies).  Event handlers mutate branches in place           *)
(* (`position[i] += ..', Time.update), rebind fields, or hand the very     *)
(* same velocity/time-stamp object over to another unit                    *)
(* (_exchange_velocity); insert_into_global_state stores the branch's      *)
(* *references*.  C13 says: nothing done to a not-yet-inserted branch is   *)
(* visible in the global state or in another branch.                       *)
(*                                                                         *)
(* Units are identifier tuples <<r>> (root) and <<r, k>> (child).          *)
(***************************************************************************)
EXTENDS Integers, Sequences, FiniteSets, TLC, Json

CONSTANTS MaxDepth, NVel, NRoots, NKids,       \* NKids = 0: one level
          Slots,               \* number of simultaneously extracted branches
          MaxRef               \* state constraint on allocated objects

Roots == 0 .. NRoots - 1
Kids  == 0 .. NKids - 1
RootIds == {<<r>> : r \in Roots}
KidIds  == {<<r, k>> : r \in Roots, k \in Kids}
Units == RootIds \cup KidIds
Levels == IF NKids = 0 THEN 1 ELSE 2
IsRoot(u) == Len(u) = 1
RootOf(u) == <<u[1]>>
KidsOf(u) == IF IsRoot(u) THEN {<<u[1], k>> : k \in Kids} ELSE {}
(* extract_from_global_state(id): the node, all its ancestors and all its descendants *)
BranchUnits(u) == {u} \cup (IF IsRoot(u) THEN KidsOf(u) ELSE {RootOf(u)})

PosVals == 0 .. 1
VelVals == 1 .. NVel
TsVals  == 1 .. 2
NoRef == 0

VARIABLES store,      \* [1 .. next-1 -> value]
          next,       \* next free reference
          gpos,       \* [Units -> Ref]                    TreePhysicalState (node.value.position)
          gdict,      \* [Units -> <<velRef, tsRef>>]      TreeLiftingState._lifting_dictionary (<<0,0>> = absent)
          lifted,     \* SUBSET Units                      TreeLiftingState._lifted_identifiers (all levels)
          br,         \* [1 .. Slots -> branch or NoBranch]
          op          \* last operation (for the replay)

NoBranch == [id |-> <<>>, f |-> <<>>]
Live(s) == br[s].id # <<>>

Val(st, ref) == IF ref = NoRef THEN 0 ELSE st[ref]
GlobalValue(st, gp, gd) == [u \in Units |-> <<Val(st, gp[u]), Val(st, gd[u][1]), Val(st, gd[u][2])>>]
BranchValue(st, b) == [u \in DOMAIN b.f |-> <<Val(st, b.f[u][1]), Val(st, b.f[u][2]), Val(st, b.f[u][3])>>]

(* yield_independent_lifted_identifiers *)
ActiveRule(lf) ==
    IF Levels = 1 THEN {u \in Units : gdict[u][1] # NoRef}
    ELSE UNION {LET lk == {k \in KidsOf(r) : k \in lf} IN
                IF Cardinality(lk) = NKids THEN {r} ELSE lk : r \in {x \in RootIds : x \in lf}}

(* ------------------------------------------------------------------------ allocation helpers *)
(* copy the three fields of the units in us (in a fixed order) into fresh objects *)
RECURSIVE CopyAll(_, _, _, _)
CopyAll(us, st, nx, acc) ==
    IF us = {} THEN [st |-> st, nx |-> nx, f |-> acc]
    ELSE LET u == CHOOSE x \in us : \A y \in us : (Len(x) < Len(y)) \/ (Len(x) = Len(y) /\ x[Len(x)] <= y[Len(y)])
             vr == gdict[u][1]
             tr == gdict[u][2]
             p  == nx
             v  == IF vr = NoRef THEN NoRef ELSE nx + 1
             t  == IF tr = NoRef THEN NoRef ELSE (IF vr = NoRef THEN nx + 1 ELSE nx + 2)
             n2 == nx + 1 + (IF vr = NoRef THEN 0 ELSE 1) + (IF tr = NoRef THEN 0 ELSE 1)
             st1 == [i \in 1 .. n2 - 1 |-> IF i < nx THEN st[i]
                                            ELSE IF i = p THEN st[gpos[u]]
                                            ELSE IF i = v THEN st[vr] ELSE st[tr]]
         IN  CopyAll(us \ {u}, st1, n2, acc @@ (u :> <<p, v, t>>))

Alloc(st, nx, val) == [i \in 1 .. nx |-> IF i < nx THEN st[i] ELSE val]

(* ------------------------------------------------------------------------ actions *)
Init == /\ next = Cardinality(Units) + 1
        /\ gpos = [u \in Units |-> IF IsRoot(u) THEN u[1] + 1 ELSE NRoots + u[1] * NKids + u[2] + 1]
        /\ store = [i \in 1 .. Cardinality(Units) |-> 0]
        /\ gdict = [u \in Units |-> <<NoRef, NoRef>>]
        /\ lifted = {}
        /\ br = [s \in 1 .. Slots |-> NoBranch]
        /\ op = [name |-> "init"]

Extract(s, u) ==
    /\ ~Live(s)
    /\ LET c == CopyAll(BranchUnits(u), store, next, <<>>) IN
       /\ store' = c.st /\ next' = c.nx
       /\ br' = [br EXCEPT ![s] = [id |-> u, f |-> c.f]]
    /\ op' = [name |-> "extract", slot |-> s, unit |-> u]
    /\ UNCHANGED <<gpos, gdict, lifted>>

(* extract_active_global_state: one branch per independently moving unit; modelled for at most Slots of them *)
ExtractActive ==
    /\ \A s \in 1 .. Slots : ~Live(s)
    /\ ActiveRule(lifted) # {}
    /\ Cardinality(ActiveRule(lifted)) <= Slots
    /\ LET act == ActiveRule(lifted)
           u1 == CHOOSE x \in act : \A y \in act : x[1] < y[1] \/ (x[1] = y[1] /\ x[Len(x)] <= y[Len(y)])
           c1 == CopyAll(BranchUnits(u1), store, next, <<>>)
       IN  IF Cardinality(act) = 1
           THEN /\ store' = c1.st /\ next' = c1.nx
                /\ br' = [br EXCEPT ![1] = [id |-> u1, f |-> c1.f]]
           ELSE LET u2 == CHOOSE x \in act \ {u1} : TRUE
                    c2 == CopyAll(BranchUnits(u2), c1.st, c1.nx, <<>>)
                IN  /\ store' = c2.st /\ next' = c2.nx
                    /\ br' = [br EXCEPT ![1] = [id |-> u1, f |-> c1.f], ![2] = [id |-> u2, f |-> c2.f]]
    /\ op' = [name |-> "extract_active", active |-> ActiveRule(lifted)]
    /\ UNCHANGED <<gpos, gdict, lifted>>

MutatePos(s, u, val) ==        \* position[i] = ... on the extracted list object
    /\ Live(s) /\ u \in DOMAIN br[s].f
    /\ store' = [store EXCEPT ![br[s].f[u][1]] = val]
    /\ op' = [name |-> "mutate_pos", slot |-> s, unit |-> u, val |-> val]
    /\ UNCHANGED <<next, gpos, gdict, lifted, br>>

MutateVel(s, u, val) ==        \* velocity[i] = ...
    /\ Live(s) /\ u \in DOMAIN br[s].f /\ br[s].f[u][2] # NoRef
    /\ store' = [store EXCEPT ![br[s].f[u][2]] = val]
    /\ op' = [name |-> "mutate_vel", slot |-> s, unit |-> u, val |-> val]
    /\ UNCHANGED <<next, gpos, gdict, lifted, br>>

MutateTs(s, u, val) ==         \* time_stamp.update(...)
    /\ Live(s) /\ u \in DOMAIN br[s].f /\ br[s].f[u][3] # NoRef
    /\ store' = [store EXCEPT ![br[s].f[u][3]] = val]
    /\ op' = [name |-> "mutate_ts", slot |-> s, unit |-> u, val |-> val]
    /\ UNCHANGED <<next, gpos, gdict, lifted, br>>

RebindPos(s, u, val) ==        \* unit.position = [new list]
    /\ Live(s) /\ u \in DOMAIN br[s].f
    /\ store' = Alloc(store, next, val) /\ next' = next + 1
    /\ br' = [br EXCEPT ![s].f[u][1] = next]
    /\ op' = [name |-> "rebind_pos", slot |-> s, unit |-> u, val |-> val]
    /\ UNCHANGED <<gpos, gdict, lifted>>

Activate(s, u, v, t) ==        \* unit.velocity = [..]; unit.time_stamp = Time(..)   (unit was at rest)
    /\ Live(s) /\ u \in DOMAIN br[s].f /\ br[s].f[u][2] = NoRef
    /\ store' = Alloc(Alloc(store, next, v), next + 1, t) /\ next' = next + 2
    /\ br' = [br EXCEPT ![s].f[u] = <<@[1], next, next + 1>>]
    /\ op' = [name |-> "activate", slot |-> s, unit |-> u, vel |-> v, ts |-> t]
    /\ UNCHANGED <<gpos, gdict, lifted>>

Deactivate(s, u) ==            \* unit.velocity = None; unit.time_stamp = None
    /\ Live(s) /\ u \in DOMAIN br[s].f /\ br[s].f[u][2] # NoRef
    /\ br' = [br EXCEPT ![s].f[u] = <<@[1], NoRef, NoRef>>]
    /\ op' = [name |-> "deactivate", slot |-> s, unit |-> u]
    /\ UNCHANGED <<store, next, gpos, gdict, lifted>>

HandOver(s, a, b) ==           \* _exchange_velocity: the same list / Time objects move from a to b
    /\ Live(s) /\ a \in DOMAIN br[s].f /\ b \in DOMAIN br[s].f /\ a # b
    /\ br[s].f[a][2] # NoRef /\ br[s].f[b][2] = NoRef
    /\ br' = [br EXCEPT ![s].f[b] = <<@[1], br[s].f[a][2], br[s].f[a][3]>>, ![s].f[a] = <<@[1], NoRef, NoRef>>]
    /\ op' = [name |-> "hand_over", slot |-> s, unit |-> a, to |-> b]
    /\ UNCHANGED <<store, next, gpos, gdict, lifted>>

Share(s, a, b) ==              \* b.velocity = a.velocity; b.time_stamp = a.time_stamp  (plain assignment: both units hold the same objects)
    /\ Live(s) /\ a \in DOMAIN br[s].f /\ b \in DOMAIN br[s].f /\ a # b
    /\ br[s].f[a][2] # NoRef
    /\ br' = [br EXCEPT ![s].f[b] = <<@[1], br[s].f[a][2], br[s].f[a][3]>>]
    /\ op' = [name |-> "share", slot |-> s, unit |-> a, to |-> b]
    /\ UNCHANGED <<store, next, gpos, gdict, lifted>>

(* insert_into_global_state: references are stored; TreeLiftingState.set / _delete maintain the index *)
Insert(s) ==
    /\ Live(s)
    /\ LET f == br[s].f IN
       /\ gpos'  = [u \in Units |-> IF u \in DOMAIN f THEN f[u][1] ELSE gpos[u]]
       /\ gdict' = [u \in Units |-> IF u \in DOMAIN f THEN <<f[u][2], f[u][3]>> ELSE gdict[u]]
       /\ lifted' = (lifted \cup {u \in DOMAIN f : f[u][2] # NoRef}) \ {u \in DOMAIN f : f[u][2] = NoRef}
    /\ br' = [br EXCEPT ![s] = NoBranch]       \* the branch now shares objects with the global state: it is dead
    /\ op' = [name |-> "insert", slot |-> s]
    /\ UNCHANGED <<store, next>>

Drop(s) ==
    /\ Live(s)
    /\ br' = [br EXCEPT ![s] = NoBranch]
    /\ op' = [name |-> "drop", slot |-> s]
    /\ UNCHANGED <<store, next, gpos, gdict, lifted>>

Next == \/ \E s \in 1 .. Slots, u \in Units : Extract(s, u)
        \/ ExtractActive
        \/ \E s \in 1 .. Slots, u \in Units, val \in PosVals : MutatePos(s, u, val) \/ RebindPos(s, u, val)
        \/ \E s \in 1 .. Slots, u \in Units, val \in VelVals : MutateVel(s, u, val)
        \/ \E s \in 1 .. Slots, u \in Units, val \in TsVals : MutateTs(s, u, val)
        \/ \E s \in 1 .. Slots, u \in Units, v \in VelVals, t \in TsVals : Activate(s, u, v, t)
        \/ \E s \in 1 .. Slots, u \in Units : Deactivate(s, u)
        \/ \E s \in 1 .. Slots, a \in Units, b \in Units : HandOver(s, a, b) \/ Share(s, a, b)
        \/ \E s \in 1 .. Slots : Insert(s) \/ Drop(s)

vars == <<store, next, gpos, gdict, lifted, br, op>>
Spec == Init /\ [][Next]_vars
Bounded == next <= MaxRef /\ TLCGet("level") <= MaxDepth

(* ------------------------------------------------------------------------ clauses of C13 *)
GV == GlobalValue(store, gpos, gdict)
(* a branch has the shape node + ancestors + descendants *)
BranchShape == \A s \in 1 .. Slots : Live(s) => DOMAIN br[s].f = BranchUnits(br[s].id)
(* no live branch shares an object with the global state or with another live branch *)
GlobalRefs == {gpos[u] : u \in Units} \cup {gdict[u][1] : u \in Units} \cup {gdict[u][2] : u \in Units}
RefsOf(s) == UNION {{br[s].f[u][1], br[s].f[u][2], br[s].f[u][3]} : u \in DOMAIN br[s].f}
NoSharing == \A s \in 1 .. Slots : Live(s) =>
                 /\ (RefsOf(s) \ {NoRef}) \cap GlobalRefs = {}
                 /\ \A t \in 1 .. Slots : (t # s /\ Live(t)) => (RefsOf(s) \ {NoRef}) \cap RefsOf(t) = {}
IndexConsistent == lifted = {u \in Units : gdict[u][1] # NoRef}
StampIffVelocity == \A u \in Units : (gdict[u][1] = NoRef) <=> (gdict[u][2] = NoRef)
(* action properties *)
IsMutation == op'.name \in {"mutate_pos", "mutate_vel", "mutate_ts", "rebind_pos", "activate", "deactivate", "hand_over", "share", "drop"}
Isolation == [][IsMutation => /\ GlobalValue(store', gpos', gdict') = GV
                                /\ \A t \in 1 .. Slots : (Live(t) /\ t # op'.slot) => BranchValue(store', br'[t]) = BranchValue(store, br[t])]_vars
ExtractCurrent == [][op'.name = "extract" => /\ GlobalValue(store', gpos', gdict') = GV
                                               /\ \A u \in DOMAIN br'[op'.slot].f : BranchValue(store', br'[op'.slot])[u] = GV[u]]_vars
InsertExact == [][op'.name = "insert" =>
                     LET b == br[op'.slot] IN
                     \A u \in Units : GlobalValue(store', gpos', gdict')[u] = IF u \in DOMAIN b.f THEN BranchValue(store, b)[u] ELSE GV[u]]_vars
OnlyInsertChangesGlobal == [][op'.name # "insert" => GlobalValue(store', gpos', gdict') = GV]_vars

View == <<store, next, gpos, gdict, lifted, br>>
=============================================================================
