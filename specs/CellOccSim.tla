----------------------------- MODULE CellOccSim -----------------------------
(* CellOcc.tla with a history variable for the replay into the real SingleActiveCellOccupancy and tagger generators. *)
EXTENDS CellOcc
CONSTANT Depth
VARIABLE hist
Obs == [op |-> op, cellOf |-> cellOf, occ |-> [c \in 1 .. NCells |-> occ[c - 1]],
        surplus |-> [c \in 1 .. NCells |-> IF hasKey[c - 1] THEN surplus[c - 1] ELSE <<>>],
        keys |-> {c \in Cellz : hasKey[c]}, activeId |-> activeId, activeCell |-> activeCell,
        near |-> IF activeId # None THEN NearbyTargets ELSE {}, sur |-> IF activeId # None THEN SurplusTargets ELSE {},
        veto |-> IF activeId # None THEN VetoTargets ELSE {},
        vetoCells |-> IF activeId # None THEN {<<c, occ[c]>> : c \in Cellz \ Nearby(activeCell)} ELSE {}]
Finish == op' = [name |-> "finish"] /\ UNCHANGED <<cellOf, occ, surplus, hasKey, activeId, activeCell, started, moving>>
SimInit == InitM /\ hist = <<>>
SimNext == /\ op.name # "finish"          \* one Finish step ends the behaviour (and prints it once)
           /\ IF TLCGet("level") >= Depth THEN Finish ELSE (Next \/ \E k \in 1 .. 2 : \E up \in BOOLEAN : Cross(up))
           /\ hist' = Append(hist, Obs')
SimSpec == SimInit /\ [][SimNext]_<<vars, moving, hist>>
Emit == op.name # "finish" \/ PrintT(<<"BEH", ToJson([init |-> hist[1].cellOf, steps |-> hist])>>)
=============================================================================
