SPECIFICATION Spec
CONSTANTS
  MaxB = 6
  K = 2
  NRoots = 3
INVARIANT ActiveInEveryInState
INVARIANT EmitTable
CHECK_DEADLOCK FALSE
