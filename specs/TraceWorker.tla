----------------------------- MODULE TraceWorker -----------------------------
(***************************************************************************)
(* Code -> spec for the WORKER side of the multi-process mediator (C20).   *)
(* MultiProc.tla proves (for small constants, every interleaving) that the *)
(* mediator and workers that follow W(h) neither deadlock nor garble the   *)
(* pipes.  TraceMedStage.tla binds the mediator process to it; this module *)
(* binds the worker processes: every worker logs its synchronisation       *)
(* operations (or-event wait, start / continue clear, semaphore acquire /  *)
(* release, pipe recv / send) in program order, and the sequence must be a *)
(* path through the program counter of W(h) -- the labels below are        *)
(* MultiProc!wpc's (the two-step _changed() of the or-event is internal to *)
(* clear() and not logged).  Independent of any schedule: a worker that    *)
(* performs the operations in another order is rejected even if the race   *)
(* that order opens never happened in the recorded run.                    *)
(*   record: [w (worker index), op, tin, tout]                             *)
(***************************************************************************)
EXTENDS Integers, Sequences, FiniteSets, TLC, Json, IOUtils
VARIABLES l, wpc, sig, viol
Log == ndJsonDeserialize(IOEnv.TRACE_FILE)
NW == IF Len(Log) = 0 THEN 0 ELSE Log[1].nw              \* first record: number of workers

(* next program counter of W(h) for a logged operation; "bad" if W(h) has no such step *)
Nxt(s, op, tin, tout) ==
    CASE s = "w1"    /\ op = "wait_or"        -> "w1chk"
      [] s = "w1chk" /\ op = "clear_start"    -> "acq"
      [] s = "acq"   /\ op = "acquire"        -> IF tin THEN "rin" ELSE "stime"
      [] s = "rin"   /\ op = "recv"           -> "stime"
      [] s = "stime" /\ op = "send"           -> "rel"
      [] s = "rel"   /\ op = "release"        -> "w2"
      [] s = "w2"    /\ op = "wait_or"        -> "w2chk"
      [] s = "w2chk" /\ op = "wait_or"        -> "w1chk"     \* start set again: `continue', the loop waits (returns at once)
      [] s = "w2chk" /\ op = "clear_continue" -> IF tout THEN "oargs" ELSE "sout"
      [] s = "oargs" /\ op = "recv"           -> "sout"
      [] s = "sout"  /\ op = "send"           -> "w1"
      [] OTHER -> "bad"

TStep ==
    /\ l <= Len(Log)
    /\ LET e == Log[l] IN
       IF e.op = "meta" THEN UNCHANGED <<wpc, sig, viol>>
       ELSE IF e.op = "init"
       THEN /\ sig' = [sig EXCEPT ![e.w] = <<e.tin = 1, e.tout = 1>>]
            /\ wpc' = [wpc EXCEPT ![e.w] = "w1"] /\ UNCHANGED viol
       ELSE IF wpc[e.w] = "bad" THEN UNCHANGED <<wpc, sig, viol>>       \* already reported for this worker
       ELSE LET n == Nxt(wpc[e.w], e.op, sig[e.w][1], sig[e.w][2]) IN
            /\ wpc' = [wpc EXCEPT ![e.w] = n]
            /\ viol' = IF n = "bad"
                       THEN viol \cup {<<l, "worker performs `" \o e.op \o "' at program counter " \o wpc[e.w]
                                          \o " of MultiProc!W(h): not a step of run_in_process">>}
                       ELSE viol
            /\ UNCHANGED sig
    /\ l' = l + 1
TInit == l = 1 /\ wpc = [w \in 1 .. NW |-> "none"] /\ sig = [w \in 1 .. NW |-> <<FALSE, FALSE>>] /\ viol = {}
TSpec == TInit /\ [][TStep]_<<l, wpc, sig, viol>>
Report == l <= Len(Log) \/ PrintT(<<"VERDICT", Len(Log), viol>>)
=============================================================================
