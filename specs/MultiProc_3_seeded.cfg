SPECIFICATION FairSpec
CONSTANTS
  Handlers = {1, 2, 3}
  OutArgs = {3}
  Cores = 3
  MaxLegs = 2
  BlockingDiscard = FALSE
INVARIANT NoError
INVARIANT SemaphoreBound
INVARIANT NoDeadlock
PROPERTY RunCompletes
CHECK_DEADLOCK FALSE
