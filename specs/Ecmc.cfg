SPECIFICATION Spec
INVARIANT NoBad
INVARIANT Mirror
INVARIANT ActiveCellTrue
INVARIANT Live
CHECK_DEADLOCK FALSE
