------------------------------- MODULE Lifting -------------------------------
(***************************************************************************)
(* lifting/lifting.py and the three schemes on integer rates.  All rates   *)
(* and draws are doubled so that the mid-point j + 1/2 of every unit piece *)
(* of an interval is the odd integer 2j+1: one representative draw per     *)
(* unit of probability mass, on which float arithmetic is exact.           *)
(*                                                                         *)
(* The object is a record [neg, ids, rp, sumPos, rec]; Reset / Insert /    *)
(* the three get_active_identifier are transcribed one to one.             *)
(***************************************************************************)
EXTENDS Integers, Sequences, FiniteSets, TLC, Json

CONSTANTS MaxLen, MaxRate

Fresh == [neg |-> <<>>, ids |-> <<>>, rp |-> 0, sumPos |-> 0, rec |-> FALSE]
Reset(s) == Fresh

(* insert(lifting_rate, identifier, is_active); u = the uniform(0, lifting_rate) draw (doubled) *)
Insert(s, rate, id, isActive, u) ==
    IF rate > 0
    THEN [s EXCEPT !.sumPos = @ + 2 * rate,
                   !.rec = IF isActive THEN TRUE ELSE @,
                   !.rp = IF isActive THEN @ + u ELSE IF ~s.rec THEN @ + 2 * rate ELSE @]
    ELSE [s EXCEPT !.neg = Append(@, 0 - 2 * rate), !.ids = Append(@, id)]

RECURSIVE Scan(_, _, _, _)
Scan(neg, pos, k, cum) ==      \* for index, rate in enumerate(neg): cum += rate; if pos <= cum: return index
    IF k > Len(neg) THEN Len(neg)
    ELSE IF pos <= cum + neg[k] THEN k ELSE Scan(neg, pos, k + 1, cum + neg[k])

RECURSIVE SumSeq(_)
SumSeq(q) == IF q = <<>> THEN 0 ELSE Head(q) + SumSeq(Tail(q))

GetInside(s)   == s.ids[Scan(s.neg, s.rp, 1, 0)]
GetOutside(s)  == s.ids[Scan(s.neg, SumSeq(s.neg) - s.rp, 1, 0)]
GetRatio(s, w) == s.ids[Scan(s.neg, w, 1, 0)]           \* w = uniform(0, sum(neg)) draw (doubled)

(* ---------------------------------------- tables *)
Rates == (0 - MaxRate) .. MaxRate
Tables == {t \in UNION {[1 .. n -> Rates] : n \in 2 .. MaxLen} :
              SumSeq(t) = 0 /\ \E i \in DOMAIN t : t[i] > 0}
Positives(t) == {i \in DOMAIN t : t[i] > 0}

RECURSIVE Fill(_, _, _, _, _)
Fill(s, t, a, u, i) == IF i > Len(t) THEN s ELSE Fill(Insert(s, t[i], i, i = a, u), t, a, u, i + 1)
Loaded(t, a, u) == Fill(Fresh, t, a, u, 1)

Draws(r)  == {2 * j + 1 : j \in 0 .. r - 1}            \* interior representatives of uniform(0, r)
SelInside(t, a, u)  == GetInside(Loaded(t, a, u))
SelOutside(t, a, u) == GetOutside(Loaded(t, a, u))
SelRatio(t, a, w)   == GetRatio(Loaded(t, a, 1), w)
SumPos(t) == SumSeq([i \in DOMAIN t |-> IF t[i] > 0 THEN t[i] ELSE 0])

(* ---------------------------------------- clauses of C05 *)
(* selections per table, computed once: [active unit -> [draw index -> selected unit]] *)
SelsOf(Sel(_, _, _), t) == [a \in DOMAIN t |-> IF t[a] > 0 THEN [j \in 1 .. t[a] |-> Sel(t, a, 2 * j - 1)] ELSE <<>>]
Inflow(sels, k) == SumSeq([a \in DOMAIN sels |-> Cardinality({j \in DOMAIN sels[a] : sels[a][j] = k})])
Balanced(Sel(_, _, _), t) == LET sels == SelsOf(Sel, t) IN
                             /\ \A k \in DOMAIN t : t[k] <= 0 => Inflow(sels, k) = 0 - t[k]
                             /\ \A a \in DOMAIN t : \A j \in DOMAIN sels[a] : t[sels[a][j]] < 0
FlowBalanceInside  == \A t \in Tables : Balanced(SelInside, t)
FlowBalanceOutside == \A t \in Tables : Balanced(SelOutside, t)
FlowBalanceRatio   == \A t \in Tables : \A a \in Positives(t) :
                          LET sp == SumPos(t)
                              rs == [j \in 1 .. sp |-> SelRatio(t, a, 2 * j - 1)]
                          IN  /\ \A k \in DOMAIN t : t[k] <= 0 => Cardinality({j \in DOMAIN rs : rs[j] = k}) = 0 - t[k]
                              /\ \A j \in DOMAIN rs : t[rs[j]] < 0
NeverNonNegative   == TRUE       \* folded into the three clauses above (every selected unit has a negative derivative)
ASSUME FlowBalanceInside /\ FlowBalanceOutside /\ FlowBalanceRatio /\ NeverNonNegative

(* ---------------------------------------- the object as a state machine: reset, inserts of one table, get *)
VARIABLES obj, tab, act, draw, pos, chosen
Init == obj = Fresh /\ tab \in Tables /\ act \in 1 .. MaxLen /\ act \in Positives(tab) /\ draw \in Draws(tab[act])
        /\ pos = 1 /\ chosen = <<0, 0>>
DoInsert == /\ pos <= Len(tab)
            /\ obj' = Insert(obj, tab[pos], pos, pos = act, draw)
            /\ pos' = pos + 1
            /\ UNCHANGED <<tab, act, draw, chosen>>
DoGet == /\ pos = Len(tab) + 1
         /\ chosen' = <<GetInside(obj), GetOutside(obj)>>
         /\ pos' = pos + 1
         /\ UNCHANGED <<obj, tab, act, draw>>
DoReset == /\ pos = Len(tab) + 2
           /\ obj' = Reset(obj)
           /\ pos' = pos + 1
           /\ UNCHANGED <<tab, act, draw, chosen>>
Next == DoInsert \/ DoGet \/ DoReset
Spec == Init /\ [][Next]_<<obj, tab, act, draw, pos, chosen>>
ChosenNegative == pos = Len(tab) + 2 => tab[chosen[1]] < 0 /\ tab[chosen[2]] < 0
RandomPositionInRange == obj.rp >= 0 /\ obj.rp <= obj.sumPos
ResetClears == pos = Len(tab) + 3 => obj = Fresh
NegativeListMatches == pos = Len(tab) + 1 => SumSeq(obj.neg) = obj.sumPos /\ Len(obj.neg) = Len(obj.ids)

(* rows: interior draws (io: inside/outside-first per draw u; ra: ratio per draw w) and the end points *)
ASSUME TLCSet(7, 0)
(* printed once: the table is a constant, but TLC would re-evaluate (and re-serialise) it in every state *)
EmitTable == TLCGet(7) = 1 \/ (TLCSet(7, 1) /\ PrintT(<<"TABLE", ToJson(
    [rows |-> UNION {{[t |-> t, a |-> a,
                       io |-> [j \in 1 .. t[a] |-> <<SelInside(t, a, 2 * j - 1), SelOutside(t, a, 2 * j - 1)>>],
                       ra |-> [j \in 1 .. SumPos(t) |-> SelRatio(t, a, 2 * j - 1)],
                       end |-> <<SelInside(t, a, 0), SelOutside(t, a, 0), SelRatio(t, a, 0),
                                 SelInside(t, a, 2 * t[a]), SelOutside(t, a, 2 * t[a]), SelRatio(t, a, 2 * SumPos(t))>>]
                      : a \in Positives(t)} : t \in Tables}])>>))
=============================================================================
