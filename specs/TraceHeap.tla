------------------------------ MODULE TraceHeap ------------------------------
(***************************************************************************)
(* Code -> spec: a history executed on the real HeapScheduler (and, call   *)
(* for call, on ListScheduler) is a behaviour of Heap.tla.                 *)
(*                                                                         *)
(* Every line of the ndjson log is one public call (the linearization      *)
(* point of a sequential object is the call's return).  The action is      *)
(* bound to the logged arguments; the logged results and projected state   *)
(* (returned handler / error, C array read through lib.entry, counter of   *)
(* the touched handler, time returned by ListScheduler) are *clauses*: a   *)
(* mismatch is recorded in `viol' with line and clause name and the trace  *)
(* continues, so one verdict covers the whole trace.  Clauses about the    *)
(* representation (array, counters, which of several tied handlers) are    *)
(* marked "transcription:" -- they say that Heap.tla no longer transcribes *)
(* the code, not that C06 is violated; the harness reports them as notes.  *)
(***************************************************************************)
EXTENDS Heap, Json, IOUtils, TLCExt

VARIABLES l, viol

Log == ndJsonDeserialize(IOEnv.TRACE_FILE)

Has(e, f) == f \in DOMAIN e

ArrOf(G) == [i \in 1 .. (IF G.len > 0 THEN G.len - 1 ELSE 0) |-> <<G.a[i].q, G.a[i].r, G.a[i].h, G.a[i].c>>]

Clauses(e) ==
    (IF Has(e, "arr") /\ ArrOf(H') # e.arr THEN {<<l, "transcription: C array differs from model">>} ELSE {})
    \cup (IF Has(e, "len") /\ H'.len # e.len THEN {<<l, "transcription: heap length differs from model">>} ELSE {})
    \cup (IF Has(e, "mv") /\ minValid'[e.h] # e.mv THEN {<<l, "transcription: _minimal_valid_counter differs from model">>} ELSE {})
    \cup (IF e.op = "get" /\ op'.err # e.err THEN {<<l, "get: error/no-error differs from model">>} ELSE {})
    \cup (IF e.op = "get" /\ op'.err = "none" /\ e.err = "none" /\ op'.h # e.ret
          THEN {<<l, "transcription: get returned another handler than the model (tie)">>} ELSE {})
    \cup (IF e.op = "get" /\ op'.err = "none" /\ e.err = "none" /\ live'[e.ret] # op'.t
          THEN {<<l, "get: the returned handler has no live event with the minimal time">>} ELSE {})
    \cup (IF e.op = "get" /\ op'.err = "none" /\ Has(e, "lt") /\ op'.t # e.lt
          THEN {<<l, "get: ListScheduler returned another time than the model">>} ELSE {})
    \cup (IF e.op = "get" /\ ~GetReturnsLiveMinimal' THEN {<<l, "get: model itself returns a non-minimal event">>} ELSE {})

TStep ==
    /\ l <= Len(Log)
    /\ LET e == Log[l] IN
       /\ CASE e.op = "push"     -> Push(e.h, <<e.q, e.r>>)
            [] e.op = "trash"    -> Trash(e.h)
            [] e.op = "get"      -> Get
            [] e.op = "repickle" -> Repickle
       /\ viol' = viol \cup Clauses(e)
    /\ l' = l + 1

TInit == Init /\ l = 1 /\ viol = {}
TSpec == TInit /\ [][TStep]_<<vars, l, viol>>

Report == l <= Len(Log) \/ PrintT(<<"VERDICT", Len(Log), viol>>)
Consumed == TLCGet("stats").diameter - 1 = Len(Log) \/ PrintT(<<"STUCK", TLCGet("stats").diameter, Len(Log)>>)
=============================================================================
