SPECIFICATION Spec
CONSTANTS
  NUnits = 4
  NCells = 5
  Layers = 1
  MaxOcc = 2
  Relevant = {1, 2, 4}
INVARIANT Mirror
INVARIANT IrrelevantNeverRecorded
INVARIANT ActiveSeparate
INVARIANT ActiveRecordedIffRelevant
INVARIANT NoUpdateError
INVARIANT Capacity
INVARIANT NoEmptySurplusList
INVARIANT Partition
