------------------------------ MODULE HeapSim ------------------------------
(***************************************************************************)
(* Heap.tla plus a history variable: the behaviours TLC generates in       *)
(* simulation mode are printed (one line per behaviour, at depth `Depth')  *)
(* and replayed step by step into the real cffi heap, HeapScheduler and    *)
(* ListScheduler by harness/replay_heap.py.                                *)
(***************************************************************************)
EXTENDS Heap, Json
CONSTANTS Depth, GetWeight, TrashWeight
VARIABLE hist

Obs == [op  |-> op,
        len |-> H.len,
        arr |-> [i \in 1 .. (IF H.len > 0 THEN H.len - 1 ELSE 0) |-> <<H.a[i].q, H.a[i].r, H.a[i].h, H.a[i].c>>],
        mv  |-> minValid,
        era |-> era,
        last |-> lastRet]

SimInit == Init /\ hist = <<>>
(* TLC's simulator draws uniformly from the list of successor states; repeating a disjunct  *)
(* only changes the sampling weights (pushes would otherwise dominate), not the behaviours. *)
Weighted == \/ Next
            \/ \E k \in 1 .. GetWeight : Get
            \/ \E k \in 1 .. TrashWeight : \E h \in Handlers : Trash(h)
SimNext == Weighted /\ hist' = Append(hist, Obs')
SimSpec == SimInit /\ [][SimNext]_<<vars, hist>>

(* TLC evaluates invariants on every candidate successor; printing only the candidate whose last *)
(* step is `repickle' (exactly one per state) gives one line per simulated behaviour.           *)
Emit == TLCGet("level") < Depth \/ op.name # "repickle" \/ PrintT(<<"BEH", ToJson(hist)>>)
=============================================================================
