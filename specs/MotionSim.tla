------------------------------ MODULE MotionSim ------------------------------
(* Motion.tla with a history variable; behaviours are replayed into the real event-handler classes and TreeStateHandler. *)
EXTENDS Motion
CONSTANT Depth
VARIABLE hist
Obs == [op |-> op, state |-> {<<u, pos[u], vel[u], ts[u]>> : u \in Units}]
Finish == op' = [name |-> "finish", t |-> now, args |-> <<>>] /\ UNCHANGED <<pos, vel, ts, now>>
SimInit == Init /\ hist = <<>>
SimNext == /\ op.name # "finish"          \* one Finish step ends the behaviour (and prints it once)
           /\ IF TLCGet("level") >= Depth \/ now >= MaxTime THEN Finish ELSE Next
           /\ hist' = Append(hist, Obs')
SimSpec == SimInit /\ [][SimNext]_<<vars, hist>>
InitState == {<<u, [d \in 1 .. Dims |-> IF Len(u) = 1 THEN (4 * u[1]) % Box ELSE (4 * u[1] + Offset(u[2])) % Box]>> : u \in Units}
Emit == op.name # "finish" \/ PrintT(<<"BEH", ToJson([init |-> InitState, steps |-> hist])>>)
=============================================================================
