------------------------------ MODULE Periodic ------------------------------
(***************************************************************************)
(* setting/hypercubic_setting.py and hypercuboid_setting.py on a dyadic    *)
(* lattice (unit 1/8): positions, separations and box lengths are integers *)
(* on which the implementation's float arithmetic is exact.                *)
(***************************************************************************)
EXTENDS Integers, Sequences, FiniteSets, TLC, Json

CONSTANTS Lengths,     \* box lengths (even integers, unit 1/8)
          Span         \* positions range over -Span*L .. Span*L

(* ---------------------------------------- transcription *)
CorrectPos(x, L) == x % L                                            \* position_entry % system_length
CorrectSep(s, L) == ((s + L \div 2) % L) - L \div 2                  \* (s + L/2) % L - L/2
SepEntry(ref, tgt, L) == CorrectSep(tgt - ref, L)                    \* separation_vector, one component
NextImage(x, L) == x + L

Pos(L) == (0 - Span * L) .. (Span * L)

(* ---------------------------------------- clauses of C15 (operator level) *)
InBox      == \A L \in Lengths : \A x \in Pos(L) : CorrectPos(x, L) >= 0 /\ CorrectPos(x, L) < L
Congruent  == \A L \in Lengths : \A x \in Pos(L) : (CorrectPos(x, L) - x) % L = 0
Unique     == \A L \in Lengths : \A x \in Pos(L), y \in 0 .. L - 1 : ((y - x) % L = 0) => y = CorrectPos(x, L)
Idempotent == \A L \in Lengths : \A x \in Pos(L) : CorrectPos(CorrectPos(x, L), L) = CorrectPos(x, L)
SepCongruent == \A L \in Lengths : \A a \in Pos(L), b \in 0 .. L - 1 : (SepEntry(a, b, L) - (b - a)) % L = 0
HalfBox    == \A L \in Lengths : \A s \in Pos(L) : (CorrectSep(s, L) >= 0 - L \div 2 /\ CorrectSep(s, L) <= L \div 2
                                                 /\ CorrectSep(s, L) # L \div 2)   \* representative in [-L/2, L/2)
ImageSame  == \A L \in Lengths : \A x \in Pos(L) : CorrectPos(NextImage(x, L), L) = CorrectPos(x, L)
ASSUME InBox /\ Congruent /\ Unique /\ Idempotent /\ SepCongruent /\ HalfBox /\ ImageSame

(* ---------------------------------------- a point moving through the periodic box (state machine) *)
VARIABLES boxL, px, partner
Init == boxL \in Lengths /\ px \in 0 .. boxL - 1 /\ partner \in 0 .. boxL - 1
Move(v) == px' = CorrectPos(px + v, boxL) /\ UNCHANGED <<boxL, partner>>
Next == \E v \in (0 - 2 * boxL) .. (2 * boxL) : Move(v)
Spec == Init /\ [][Next]_<<boxL, px, partner>>
StaysInBox == px >= 0 /\ px < boxL
SepInHalfBox == LET s == SepEntry(px, partner, boxL) IN s >= 0 - boxL \div 2 /\ s < boxL \div 2 /\ (px + s - partner) % boxL = 0
MoveIsTranslation == [][\E v \in (0 - 2 * boxL) .. (2 * boxL) : (px' - px - v) % boxL = 0]_<<boxL, px, partner>>

ASSUME TLCSet(7, 0)
(* printed once: the table is a constant, but TLC would re-evaluate (and re-serialise) it in every state *)
EmitTable == TLCGet(7) = 1 \/ (TLCSet(7, 1) /\ PrintT(<<"TABLE", ToJson(
    [pos |-> {<<l, p, CorrectPos(p, l)>> : l \in Lengths, p \in (0 - Span * 20) .. (Span * 20)},
     sep |-> {<<l, s, CorrectSep(s, l)>> : l \in Lengths, s \in (0 - Span * 20) .. (Span * 20)}])>>))
=============================================================================
