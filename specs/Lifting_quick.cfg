SPECIFICATION Spec
CONSTANTS
  MaxLen = 5
  MaxRate = 2
INVARIANT ChosenNegative
INVARIANT RandomPositionInRange
INVARIANT ResetClears
INVARIANT NegativeListMatches
INVARIANT EmitTable
CHECK_DEADLOCK FALSE
