SPECIFICATION TSpec
CONSTANTS
  Handlers <- H200
  Times <- T12
  Tolerant = TRUE
  InitSize = 64
  MaxCounter = 3
  MaxLen = 100000
  Cap = 320
  OneShot = TRUE
INVARIANT Report
POSTCONDITION Consumed
CHECK_DEADLOCK FALSE
