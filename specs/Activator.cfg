SPECIFICATION Spec
CONSTANTS
  NTags = 3
  Pool = 2
  MaxGen = 3
  Creates <- Cr3
  Trashes <- Tr3
  Activates <- Ac3
  Deactivates <- De3
INVARIANT PoolConservation
PROPERTY ReturnedWereFree
PROPERTY ErrorIffExhausted
PROPERTY DeactivatedYieldNothing
CHECK_DEADLOCK FALSE
