------------------------------ MODULE SchedAbs ------------------------------
(***************************************************************************)
(* Abstract scheduler: the reference model of property C06.                *)
(*                                                                         *)
(* A scheduler is a partial map from event handlers to candidate event     *)
(* times.  `live[h] = None' means h has no current (pushed, not trashed)   *)
(* event.  Times are pairs <<quotient, remainder>> compared quotient       *)
(* first (base/time.py Time.__lt__, heap.c), PlusInf is Time(inf, inf).    *)
(*                                                                         *)
(* `op' records the last call and its observable result; it is what the    *)
(* replay harness compares with HeapScheduler / ListScheduler and what     *)
(* TraceSched binds recorded scheduler calls of real runs to.              *)
(***************************************************************************)
EXTENDS Integers, FiniteSets

CONSTANTS Handlers,     \* set of positive integers
          Times,        \* set of finite times <<q, r>>
          Tolerant      \* TRUE: trashing a handler without live event is allowed (HeapScheduler only)

VARIABLES live, lastRet, op

None     == <<-2000000, -2000000>>
MinusInf == <<-1000000, -1000000>>
PlusInf  == <<1000000, 1000000>>

TLt(s, t) == s[1] < t[1] \/ (s[1] = t[1] /\ s[2] < t[2])
TLe(s, t) == ~TLt(t, s)
Finite(t) == t # None /\ t # PlusInf

LiveFinite(l) == {h \in Handlers : Finite(l[h])}
Minimal(l)    == {h \in LiveFinite(l) : \A g \in LiveFinite(l) : TLe(l[h], l[g])}

T22 == {<<q, r>> : q \in 0 .. 1, r \in 0 .. 1}
H200 == 1 .. 200
H40 == 1 .. 40
H6 == 1 .. 6
H12 == 1 .. 12
T12 == {<<0, r>> : r \in 0 .. 1}
T13 == {<<0, r>> : r \in 0 .. 2}
T23 == {<<q, r>> : q \in 0 .. 1, r \in 0 .. 2}
T99 == {<<q, r>> : q \in 0 .. 9, r \in 0 .. 9}

NoOp == [name |-> "init", h |-> 0, t |-> None, err |-> "none"]

AInit == /\ live = [h \in Handlers |-> None]
         /\ lastRet = MinusInf
         /\ op = NoOp

APush(h, t) == /\ live[h] = None
               /\ live' = [live EXCEPT ![h] = t]
               /\ op' = [name |-> "push", h |-> h, t |-> t, err |-> "none"]
               /\ UNCHANGED lastRet

ATrash(h) == /\ (Tolerant \/ live[h] # None)
             /\ live' = [live EXCEPT ![h] = None]
             /\ op' = [name |-> "trash", h |-> h, t |-> None, err |-> "none"]
             /\ UNCHANGED lastRet

(* get_succeeding_event: any handler with a minimal finite live time.  The     *)
(* implementation's own `assert _event_time_increasing' turns a returned time *)
(* smaller than the previously returned one into a SchedulerError.            *)
AGet == /\ UNCHANGED live
        /\ \/ /\ LiveFinite(live) = {}
              /\ op' = [name |-> "get", h |-> 0, t |-> None, err |-> "empty"]
              /\ UNCHANGED lastRet
           \/ \E h \in Minimal(live) :
                 IF TLt(live[h], lastRet)
                 THEN /\ op' = [name |-> "get", h |-> h, t |-> live[h], err |-> "decreasing"]
                      /\ UNCHANGED lastRet
                 ELSE /\ op' = [name |-> "get", h |-> h, t |-> live[h], err |-> "none"]
                      /\ lastRet' = live[h]

(* pickling the scheduler and loading it again must not be observable *)
ARepickle == /\ UNCHANGED <<live, lastRet>>
             /\ op' = [name |-> "repickle", h |-> 0, t |-> None, err |-> "none"]

ANext == \/ \E h \in Handlers, t \in Times \cup {PlusInf} : APush(h, t)
         \/ \E h \in Handlers : ATrash(h)
         \/ AGet
         \/ ARepickle

avars == <<live, lastRet, op>>
ASpec == AInit /\ [][ANext]_avars

(* ---- the clauses of C06 on the abstract level (checked on every op) ---- *)
GetReturnsLiveMinimal ==
    (op.name = "get" /\ op.err # "empty") =>
        /\ op.h \in Handlers
        /\ live[op.h] = op.t
        /\ Finite(op.t)
        /\ \A g \in Handlers : Finite(live[g]) => TLe(op.t, live[g])
EmptyIffNoFiniteLive ==
    op.name = "get" => ((op.err = "empty") <=> (LiveFinite(live) = {}))
ReturnedNeverDecrease ==
    (op.name = "get" /\ op.err = "none") => lastRet = op.t
=============================================================================
