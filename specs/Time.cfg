SPECIFICATION Spec
CONSTANTS
  Den = 8
  QLo <- M1
  QHi = 3
  DLo <- M16
  DHi = 40
CONSTRAINT InRange
INVARIANT ClockNormalised
PROPERTY ClockNeverBack
CHECK_DEADLOCK FALSE
