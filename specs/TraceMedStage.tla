---------------------------- MODULE TraceMedStage ----------------------------
(***************************************************************************)
(* C20, step level: the mediator-side half of MultiProc.tla checked on the *)
(* records of real multi-process runs (stage map writes, start / continue  *)
(* event sets, activator and scheduler calls of the mediator process).     *)
(* Independent of how the workers happened to be scheduled:                *)
(*   - per handler the stage follows idle -> event_time_started ->         *)
(*     suspended -> out_state_started -> idle (or suspended -> idle when   *)
(*     trashed);                                                           *)
(*   - a start event is set only for an idle handler and is followed by    *)
(*     that handler's stage event_time_started;                            *)
(*   - a continue event is set only for a suspended handler and is         *)
(*     followed by that handler's stage out_state_started;                 *)
(*   - while candidate times are collected (between the activator call and *)
(*     the scheduler's selection) only handlers whose send_out_state takes *)
(*     no arguments are continued (computed ahead of time), never with 2   *)
(*     cores; after the selection only the selected handler is continued;  *)
(*   - the selected handler is idle when its out-state is committed.       *)
(***************************************************************************)
EXTENDS Integers, Sequences, FiniteSets, TLC, Json, IOUtils
Log == ndJsonDeserialize(IOEnv.TRACE_FILE)
Meta == Log[1]
H == Len(Meta.handlers)
Handlers == 1 .. H
VARIABLES l, viol, stage, phase, sel, pendingEv, cores, outargs
vars == <<l, viol, stage, phase, sel, pendingEv, cores, outargs>>
Range(s) == {s[i] : i \in DOMAIN s}
V(c) == {<<"C20", l, c>>}
If(b, S) == IF b THEN S ELSE {}
Legal(a, b) == <<a, b>> \in {<<"idle", "event_time_started">>, <<"event_time_started", "suspended">>,
                            <<"suspended", "out_state_started">>, <<"out_state_started", "idle">>, <<"suspended", "idle">>,
                            <<"idle", "idle">>}
NoEv == <<0, "none">>

TInit == /\ l = 2 /\ viol = {} /\ stage = [h \in Handlers |-> "idle"] /\ phase = "idle" /\ sel = 0
         /\ pendingEv = NoEv /\ cores = 0 /\ outargs = {}

TStep ==
    /\ l <= Len(Log)
    /\ LET e == Log[l] IN
       CASE e.ev = "mpinit" ->
                /\ cores' = e.cores /\ outargs' = Range(e.outargs)
                /\ UNCHANGED <<viol, stage, phase, sel, pendingEv>>
         [] e.ev = "run" ->
                /\ phase' = "collect" /\ UNCHANGED <<viol, stage, sel, pendingEv, cores, outargs>>
         [] e.ev = "next" ->
                /\ phase' = "selected" /\ sel' = e.hid
                /\ viol' = viol \cup If(pendingEv # NoEv, V("an event was set without the matching stage change"))
                /\ UNCHANGED <<stage, pendingEv, cores, outargs>>
         [] e.ev = "commit" ->
                /\ viol' = viol \cup If(sel \in Handlers /\ stage[sel] # "idle", V("selected handler is not idle when its out-state is committed"))
                /\ phase' = "trash" /\ UNCHANGED <<stage, sel, pendingEv, cores, outargs>>
         [] e.ev = "evset" ->
                /\ viol' = viol
                     \cup If(pendingEv # NoEv, V("an event was set without the matching stage change"))
                     \cup If(e.which = "start" /\ stage[e.hid] # "idle", V("start event set for a handler that is not idle"))
                     \cup If(e.which = "continue" /\ stage[e.hid] # "suspended", V("continue event set for a handler that is not suspended"))
                     \cup If(e.which = "continue" /\ phase = "collect" /\ e.hid \in outargs,
                             V("out-state of a handler whose send_out_state needs arguments is computed ahead of time"))
                     \cup If(e.which = "continue" /\ phase = "collect" /\ cores <= 2, V("out-state computed ahead of time although only one worker core exists"))
                     \cup If(e.which = "continue" /\ phase = "selected" /\ e.hid # sel, V("continue event set for a handler that was not selected"))
                /\ pendingEv' = <<e.hid, e.which>>
                /\ UNCHANGED <<stage, phase, sel, cores, outargs>>
         [] e.ev = "stage" /\ e.hid \in Handlers ->
                /\ viol' = viol
                     \cup If(~Legal(stage[e.hid], e.to), V("illegal stage transition of an event handler"))
                     \cup If(e.to = "event_time_started" /\ pendingEv # <<e.hid, "start">>, V("stage event_time_started without that handler's start event"))
                     \cup If(e.to = "out_state_started" /\ pendingEv # <<e.hid, "continue">>, V("stage out_state_started set for another handler than the one whose continue event was set"))
                /\ stage' = [stage EXCEPT ![e.hid] = e.to]
                /\ pendingEv' = IF e.to \in {"event_time_started", "out_state_started"} THEN NoEv ELSE pendingEv
                /\ UNCHANGED <<phase, sel, cores, outargs>>
         [] OTHER -> UNCHANGED <<viol, stage, phase, sel, pendingEv, cores, outargs>>
    /\ l' = l + 1
TSpec == TInit /\ [][TStep]_vars
Report == l <= Len(Log) \/ PrintT(<<"VERDICT", Len(Log), viol>>)
=============================================================================
