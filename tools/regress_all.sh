#!/bin/bash
# usage: regress_all.sh <stream index> <number of streams> : run every seeded / benign change through the quick check of its property
# (scratch copies, never /repo); one line per change in /tmp/regress/result.<stream>
i=0
for d in $(ls -d /verif/seeded/C*-* /verif/benign/C*-* | sort); do
  i=$((i+1)); [ $((i % $2)) -eq $1 ] || continue
  n=$(basename $d); c=${n%%-*}
  out=$(TAIL=400 /verif/tools/try_seed.sh $d $c 2>&1)
  rc=$(echo "$out" | grep -o 'exit=[0-9]*' | tail -1)
  first=$(echo "$out" | grep -A1 '^VIOLATION' | grep 'what:' | head -1 | cut -c1-200)
  mach=$(echo "$out" | grep -c 'MACHINERY\|NOTE (machinery)')
  echo "$(dirname $d | xargs basename)/$n $rc machinery_notes=$mach $first" >> /tmp/regress/result.$1
done
