#!/bin/bash
# usage: coverage_report.sh <outdir> Cxx [Cyy ...]  : run the quick checks with line coverage of the scratch copy's package and
# report, per anchor file, the lines no harness process executed (development aid for finding blind spots; not a registered check)
OUT=$1; shift
rm -rf $OUT; mkdir -p $OUT/data
for c in "$@"; do VERIF_COVERAGE=$OUT/data VERIF_EVIDENCE_DIR=$OUT/ev python3 -m harness.check $c quick 2>&1 | tail -2; done
cd $OUT/data
/venv/bin/python - <<'PY'
import coverage, glob, os, re, collections
files = glob.glob(".coverage.*")
# scratch copies have different absolute paths: map every measured file to its path below jellyfysh/
lines = collections.defaultdict(set)
for f in files:
    d = coverage.CoverageData(basename=f); d.read()
    for m in d.measured_files():
        i = m.find("/jellyfysh/")
        if i >= 0:
            lines[m[i + 1:]].update(d.lines(m) or [])
import json
json.dump({k: sorted(v) for k, v in lines.items()}, open("../executed.json", "w"))
print("files with executed lines:", len(lines))
PY
