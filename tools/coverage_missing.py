"""Report, for the anchor files of the claimed properties, the executable statements that no harness process executed
(input: executed.json written by tools/coverage_report.sh)."""
import glob
import json
import os
import sys

from coverage.python import PythonParser

executed = json.load(open(sys.argv[1]))
props = [json.loads(l) for l in open("/verif/properties.jsonl")]
anchors = set()
for p in props:
    if p["id"] in ("C01", "C02", "C03"):
        continue
    for pat in p["anchors"]["files"]:
        for f in glob.glob(os.path.join("/repo", pat), recursive=True):
            if f.endswith(".py"):
                anchors.add(os.path.relpath(f, "/repo"))
tot = miss = 0
for f in sorted(anchors):
    parser = PythonParser(filename=os.path.join("/repo", f))
    parser.parse_source()
    st = parser.statements - parser.excluded
    # docstrings / def lines count as statements executed at import; keep them
    ex = set(executed.get(f, []))
    missing = sorted(st - ex)
    tot += len(st)
    miss += len(missing)
    if missing:
        # compress to ranges
        rng, s, prev = [], missing[0], missing[0]
        for x in missing[1:]:
            if x != prev + 1:
                rng.append((s, prev)); s = x
            prev = x
        rng.append((s, prev))
        print("%-95s %3d/%3d missing: %s" % (f, len(missing), len(st), " ".join("%d-%d" % r if r[0] != r[1] else str(r[0]) for r in rng)))
print("TOTAL statements %d, not executed %d" % (tot, miss))
