#!/bin/bash
# usage: confirm_seed.sh <Cxx> <n>  : confirm the seeded change in /tmp/wt_<Cxx> (patched state), write result into /verif/seeded/<Cxx>-<n>/confirm.txt
C=$1; N=${2:-1}; WT=/tmp/wt_$C; OUT=/verif/seeded/$C-$N/confirm.txt
cd $WT || exit 9
DEMO=$(ls SEED/demo*.py | head -1)
{
echo "worktree: $WT  demo: $DEMO"
git -C $WT diff --stat -- jellyfysh | tail -3
echo "== demo with patch"; PYTHONPATH=$WT timeout 900 /venv/bin/python $DEMO > /tmp/confirm_$C.demo1 2>&1; echo "exit=$?"; tail -3 /tmp/confirm_$C.demo1
echo "== test suite with patch"; timeout 1800 /venv/bin/python -m pytest -q -p no:cacheprovider --timeout=900 2>&1 | tail -1
echo "== revert"; git -C $WT diff -- jellyfysh > /tmp/confirm_$C.diff; git -C $WT apply -R /tmp/confirm_$C.diff
if git -C $WT diff --name-only | grep -q '\.c$' || grep -q '\.c$' <<< "$(grep '^+++ ' /tmp/confirm_$C.diff)"; then
  for f in jellyfysh/scheduler/heap_scheduler/heap_build.py jellyfysh/potential/merged_image_coulomb_potential/merged_image_coulomb_potential_build.py jellyfysh/potential/inverse_power_coulomb_bounding_potential/inverse_power_coulomb_bounding_potential_build.py; do /venv/bin/python $f >/dev/null 2>&1; done
fi
echo "== demo without patch"; PYTHONPATH=$WT timeout 900 /venv/bin/python $DEMO > /tmp/confirm_$C.demo2 2>&1; echo "exit=$?"; tail -2 /tmp/confirm_$C.demo2
} > $OUT 2>&1
cp /tmp/confirm_$C.diff /verif/seeded/$C-$N/patch.diff
git -C /repo worktree remove --force $WT
rm -f /tmp/confirm_$C.*
