#!/usr/bin/env python3
"""Regenerate MANIFEST.json from the table below (single source of truth for the registered checks)."""
import json
import os

ROOT = os.path.dirname(os.path.dirname(os.path.abspath(__file__)))

CHECKS = {
    "C06": dict(
        technique="TLA+ model checking (TLC) of Heap.tla/SchedAbs.tla + spec->code replay of TLC behaviours + "
                  "code->spec trace validation (TraceHeap.tla) + ASan replay of the validated histories",
        text="Heap.tla transcribes heap.c and HeapScheduler at array level; TLC checks heap order, lazy-deletion "
             "bookkeeping, memory safety, pickle round trip and refinement of the abstract scheduler exhaustively for "
             "small constants. The code is bound to it in both directions: TLC simulation behaviours are replayed into "
             "the real cffi heap / HeapScheduler / ListScheduler / pickle+dill with the C array compared entry by entry "
             "after every call (each behaviour under two order-preserving embeddings of the time lattice: small floats, and "
             "quotient 2^50+q with remainders 2^-45 apart), and long seeded histories executed on the real schedulers (crossing the 64/128 "
             "reallocations and the counter wrap-around) are validated line by line by TLC and re-run through heap.c "
             "under ASan+UBSan; the TLC behaviours are also run through heap.c built with the model's initial allocation (3) "
             "under ASan+UBSan. Representation-level differences (array layout, tie-break) are reported as transcription "
             "drift notes, property-level ones (error kind, live minimal time of the returned handler) as violations.",
        design="5/C06",
        note="Trusted: TLC, the harness replay/recorder code, cffi. Bounded: model constants (2-3 handlers, sizes "
             "3/6/12, MaxCounter 1-2); histories are seeded samples, not all histories."),
    "C04": dict(
        technique="trace validation of recorded thinned events against TraceEcmc.tla (TLC) + lattice of the minimum-image cube "
                  "judged by TraceDomination.tla, both on order-preserving float keys",
        text="Every thinned event of the recorded runs of all shipped configurations (bounding rate, true rate and the uniform "
             "draw observed at the handler boundary) is judged by TLC: velocities change iff the draw is below the true rate and "
             "the true rate is positive, a rejected event leaves every velocity equal to the global state, the bounding rate is "
             "positive where the true rate is, the confirmation rate is the sum of the positive pair bounds the event was "
             "proposed with, and the true rate never exceeds the nearest-image 1/r bound on the handlers configured with it. "
             "TraceDomination.tla judges the same domination on a lattice of the minimum-image cube for the (potential, bound) pair "
             "each shipped configuration builds - as built, deep-copied and after a dill round trip - and TraceThin.tla the "
             "confirmation rule at its boundary (scripted rates, forced draws).",
        design="5/C04",
        note="Decided on the separations visited by the recorded runs only; the supremum over the continuum of separations is "
             "not decided by this family (DESIGN.md 5/C04, 6). Trusted: recorder wrappers, F64 keys."),
    "C07": dict(
        technique="TLA+ model checking (TLC) of Motion.tla + replay into the real event-handler classes; Ecmc.tla per configuration; "
                  "trace validation of recorded runs against TraceEcmc.tla",
        text="All commits of recorded runs of every runnable shipped configuration and of generated variants are replayed "
             "against the run-level state machine; at each commit TLC checks monotone times, fixed inactive units, advance by "
             "velocity * elapsed time (residual measured exactly), one moving chain with one velocity of the initial speed, "
             "positions in the box, unchanged identities and charges.",
        design="5/C07",
        note="Seeded runs (300 legs quick, 3000 x 3 seeds thorough), not all histories. Trusted: recorder, Fractions."),
    "C08": dict(
        technique="TLA+ model checking (TLC) of Ecmc.tla per configuration and of Activator.tla with replay into the real TagActivator; "
                  "trace validation of recorded runs (incl. dump+resume concatenations) against TraceEcmc.tla",
        text="Design: Ecmc.tla explores every leg sequence of the abstract run whose constants are read from the objects the "
             "real factory builds from each .ini; a candidate computed from an outdated trajectory or active cell that survives "
             "the trash step is a counterexample. Code: in recorded runs every commit of an interaction / cell-veto handler "
             "must carry the motion versions of its in-state units as they were when its candidate was computed, and no stale "
             "candidate may remain after any trash step, and (SameTrajectory) every unit of the in-state recorded when the candidate "
             "was computed has, in the global state at the commit, the same velocity and lies on the same straight line (measured in "
             "exact rationals); two generated runs start every handler's lazy-deletion counter just "
             "below 2^32 so that the heap scheduler's counter wrap-around happens inside the recorded legs.",
        design="5/C08",
        note="Design model abstracts times and positions (any pending candidate may fire); quick tier bounds the largest "
             "configuration's exploration. Runs are seeded samples."),
    "C09": dict(
        technique="TLA+ model checking (TLC) of Ecmc.tla per configuration and of Activator.tla with replay into the real TagActivator; "
                  "trace validation of recorded runs against TraceEcmc.tla (pending multiset vs fresh generators, CoveredOnce)",
        text="Design: after every leg of the abstract run the pending candidates of each tagger equal what its generator yields "
             "from scratch (multiset of in-states for interaction taggers, counts for the others) and no pool runs dry. Code: "
             "after every real get_event_handlers_to_run the recorder re-invokes every tagger's generator on the same state and "
             "TLC compares it with the running handlers tracked from the activator's returns and trash lists.",
        design="5/C09",
        note="Same bounds as C08. The two .pdb configurations cannot be built offline (MDAnalysis absent) and are not covered."),
    "C10": dict(
        technique="TLA+ model checking (TLC) of CellOcc.tla and FactorMap.tla + replay of model behaviours / tables into the real "
                  "occupancy, tagger generators and FactorTypeMaps",
        text="CellOcc.tla transcribes SingleActiveCellOccupancy and the generators of the excluded-cells, surplus and "
             "cell-veto/cell-bounding families; TLC checks that their targets partition the other relevant units in every "
             "reachable state of five configurations, and simulation behaviours are replayed into the real classes with the "
             "real generators. FactorMap.tla enumerates well-formed factor files; each is written to disk (indices of a line ascending, "
             "and shuffled) and read by the real FactorTypeMaps, whose in-states must equal the model's.",
        design="5/C10",
        note="Ring of 3-6 cells, 4 units; factor files with one local and one inter-object factor."),
    "C11": dict(
        technique="TLA+ model checking (TLC) of CellOcc.tla / Ecmc.tla + replay into SingleActiveCellOccupancy + trace "
                  "validation of recorded cell runs against TraceEcmc.tla",
        text="Component: CellOcc.tla (mirror, capacity, active-separate, no-empty-surplus) exhaustively and by replay; in the replay every "
             "crossing (both directions of motion, two geometries: cell side 1, and box length 1 with cell side 1/n) is made by the real "
             "CellBoundaryEventHandler and must land in the neighbouring cell. Design: "
             "Ecmc.tla per cell configuration (bookkeeping mirrors the true cells, a cell-boundary candidate is pending for the "
             "tracked unit, update never fails). Code: at every leg of recorded cell runs the occupancy read from the object is "
             "compared with the cell of every relevant unit's exactly advanced position.",
        design="5/C11",
        note="The cell containing a position is decided on exact rationals against the recorded extents (C16 covers extents)."),
    "C12": dict(
        technique="TLA+ model checking (TLC) of Motion.tla + replay into the real event-handler classes; trace validation of recorded "
                  "composite-object runs against TraceEcmc.tla with exactly measured residuals",
        text="At every commit of recorded dipole, water and hard-disk-dipole runs TLC checks that a composite object has a "
             "velocity iff one of its point masses has, and that the measured residuals of root velocity vs weighted sum and of "
             "root position vs weighted nearest-image barycentre (both advanced to the event time in exact rationals) stay within "
             "the stated bounds.",
        design="5/C12",
        note="Seeded runs; residual bounds 1e-12 speed and 2^-30 L."),
    "C13": dict(
        technique="TLA+ model checking (TLC) of StateTree.tla (object identity) + replay of simulation behaviours into the real "
                  "TreeStateHandler + run-level clauses of TraceEcmc.tla",
        text="StateTree.tla models references of positions, velocities and time stamps; TLC checks isolation, exact insert, "
             "branch shape and the active rule to bounded depth, and 900+ simulated behaviours over four tree shapes are "
             "replayed into the real TreeStateHandler comparing the global state, every live branch and the active set after "
             "each action. In recorded runs every in-state must carry the tracked global values and the global state must not "
             "change between commits.",
        design="5/C13",
        note="Depth-bounded exhaustive exploration; field values from small sets."),
    "C17": dict(
        technique="trace validation of recorded runs against TraceEcmc.tla (TLC): sample/end times on keys, measured drift",
        text="For every state handed to an output handler in recorded runs TLC checks that it is id-for-id the global state after "
             "the sampling commit, that every moving unit carries the sampling time, that sampling times increase and drift from "
             "k * interval by at most one rounding per step (measured exactly), that the run ends at the configured time and "
             "that the number of samples is the number of sampling times before the end.",
        design="5/C17",
        note="Runs with shortened end times and varied intervals; ties of sample and end time are inconclusive."),
    "C19": dict(
        technique="trace equality modulo stutter (Lockstep.tla, TLC) of recorded dump / no-dump / resumed runs + trace validation "
                  "of the concatenated run against TraceEcmc.tla + TLC on Heap.tla's pickle round trip",
        text="For each plan (configuration x scheduler) the real run is recorded with dumping, without the dumping tagger, and "
             "resumed from copies of its dump files by the real jellyfysh.resume.main in fresh processes. Lockstep.tla decides "
             "that the run with dumps equals the run without modulo the dumping events and that each resumed run equals the "
             "suffix of the uninterrupted run record by record on float keys (commits: handler, time, out-state; samples). The "
             "concatenation of the run up to the dump and the resumed run must be a behaviour of TraceEcmc.tla (no trashed "
             "scheduler entry comes back, commits stay fresh, sampling stays on nominal times). Heap.tla covers the scheduler's "
             "pickled contents including trashed entries' validity.",
        design="5/C19",
        note="Seeded runs; dump points are the dumping events of those runs (3-8 per plan); quick: 6 plans, thorough: 13. One "
             "plan has commensurate intervals (bit-identical candidate times in the scheduler at the dump points); on it only "
             "resumed-vs-uninterrupted is compared, since the order of equal times is left open by the schedulers."),
    "C20": dict(
        technique="TLA+ model checking (TLC) of MultiProc.tla (safety + liveness); controlled-schedule runs of the real multi-process mediator: "
                  "step-level validation of the mediator's stage machine (TraceMedStage.tla) and of every worker's synchronisation operations "
                  "(TraceWorker.tla), equality with the single-process run (Lockstep.tla)",
        text="MultiProc.tla transcribes MultiProcessMediator.run, run_in_process and the or-event; TLC explores every "
             "interleaving for 3 handlers, 2-4 cores and 2-3 legs and checks that no MediatorError/assert site is reachable, "
             "that a committed out-state (including pre-computed ones) was computed from the current in-state, that pipes are "
             "clean when a handler is started, the semaphore bound, deadlock freedom and completion under weak fairness. Real "
             "runs with per-handler random streams are executed under sampled schedules (a shim around connection.wait that "
             "reorders/subsets ready pipes, per-worker answer delays and pauses after semaphore.release, 2-16 cores) and must equal "
             "the single-process run record by record on float keys; a hang, an exception or a leftover worker process is a "
             "violation. Every worker logs its wait/clear/acquire/recv/send/release operations in program order and the log must "
             "be a path through the program counter of MultiProc!W(h).",
        design="5/C20",
        note="Schedules are sampled (plus every script over the first choice points), not all interleavings; the step-wise "
             "validation of mediator stages and worker operations is schedule independent. Configurations whose out-state "
             "computation draws no random numbers."),
    "C05": dict(
        technique="TLA+ model checking (TLC) of Lifting.tla + trace validation (TraceLifting.tla) of what the real lifting classes and "
                  "the real composite-object event handler select over every unit piece of the draw range",
        text="Lifting.tla transcribes Lifting.insert/reset and the three get_active_identifier on integer rates; TLC evaluates "
             "flow balance, never-non-negative and reset clauses for every zero-sum table (length <= 5 quick / 6 thorough) and "
             "explores the object as a state machine. Every table, active unit and unit piece of the draw range (plus end points) "
             "is executed on the real classes (one long-lived object per scheme reset between tables, and a fresh object) and on "
             "the real TwoCompositeObjectSummedBoundingPotentialEventHandler and CompositeObjectCellVetoEventHandler (2+2 and 3+3 point "
             "masses, scripted pair derivatives); tables are also scaled by 2^-47 and 2^30 (the choice may depend on table and draw only); "
             "TLC counts the selections per table: inflow into k equals |t[k]|, nothing non-negative is selected. The routing "
             "itself is not prescribed (a differing but balanced routing is a note, not a violation).",
        design="5/C05",
        note="Trusted: TLC, harness/drive_lifting.py (scripted random.uniform). Integer tables only: near-cancelling float tables "
             "are outside the lattice. Draws: one representative per unit piece of each interval + end points."),
    "C14": dict(
        technique="TLA+ model checking (TLC) of Time.tla on a dyadic lattice + table replay into base.time.Time + trace validation "
                  "of boundary doubles on order-preserving float keys (TraceTime.tla, F64.tla)",
        text="Time.tla defines add/sub/from_float/comparisons in exact fixed point; TLC checks normalisation, exactness, monotony, "
             "rational order and infinity clauses for all lattice values and the run clock as a state machine (incl. Update/Reassign of a long-lived object). All model "
             "evaluations are replayed into the real Time with quotient offsets 0, 2^31, 2^52-16 (exact equality), and sets of "
             "lattice times at the same offsets are pushed into the real HeapScheduler (heap.c) and ListScheduler: nothing live may "
             "be smaller, by the model's comparison table, than what they return. Boundary and "
             "random doubles are evaluated on the real class, logged as 64-bit order keys and measured residuals, and judged "
             "clause by clause by TLC.",
        design="5/C14",
        note="Exhaustive only on the lattice (denominator 8, 5 quotients per offset); arbitrary doubles are sampled at boundary "
             "values. Trusted: harness/f64.py, fractions.Fraction for residuals."),
    "C15": dict(
        technique="TLA+ model checking (TLC) of Periodic.tla on a dyadic lattice + table replay into the cubic/cuboid periodic "
                  "boundary classes + trace validation of boundary doubles on float keys (TracePeriodic.tla)",
        text="Periodic.tla defines wrapping and minimum-image separation as integer modular arithmetic with in-box, congruence, "
             "uniqueness, idempotence and half-box clauses, and a point moving through the box as a state machine. All model "
             "evaluations are replayed into HypercubicPeriodicBoundaries and HypercuboidPeriodicBoundaries; boundary doubles "
             "(tiny negatives, 0, L, k*L +- ulp, many box lengths) for 8 box lengths are judged on keys by TLC.",
        design="5/C15",
        note="Exhaustive only on the 1/8 lattice; floats are probed. One known finding (tiny negative positions map to L)."),
    "C16": dict(
        technique="TLA+ model checking (TLC) of Cells.tla + relation-table replay into CuboidCells/CuboidPeriodicCells + trace "
                  "validation of float extents and position_to_cell on float keys (TraceCells.tla)",
        text="Cells.tla defines neighbour/nearby/relative/translate as index arithmetic modulo the cells per side with torus "
             "clauses and a hopping unit as a state machine; every relation of 12 grids x 3 layer counts is replayed into the "
             "real classes for cubic and non-cubic boxes. Recorded cell extents and position_to_cell results at the extreme "
             "floats next to every cell and box boundary are judged (abut, cover, contain, unique) on keys by TLC; all probes go "
             "through one position list updated in place (the map must not depend on earlier look-ups).",
        design="5/C16",
        note="Relations exhaustive for the listed grids; float extents probed for fixed + seeded (L, n) pairs. One known finding "
             "(top floats of the box uncovered for some grids)."),
    "C18": dict(
        technique="TLA+ model checking (TLC) of Walker.tla + replay of every rate vector into the real Walker (all rows x draws)",
        text="Walker.tla transcribes the alias-table construction (LIFO pops) on integer rates; TLC checks row mass, per-cell "
             "probability = rate/total, zero-rate cells, and the construction as a state machine. For every vector the real "
             "Walker is driven through every table row and every interior second draw (three magnitudes); per-cell mass, "
             "total_rate (read at construction and again after sampling) and zero-rate selections must equal the model's.",
        design="5/C18",
        note="Alias table part exhaustive for vectors of length <= 4/5 over 0..3; the cell-veto handler part (offset mapping, "
             "stored bound) is judged on recorded runs. Known finding: zero-rate cell selected when the draw is exactly 0.0."),
}

NOT_APPLICABLE = {
    "C01": "Convergence of sampled observables to exp(-beta U) is a statistical statement over seeds and unbounded "
           "histories; TLA+/TLC has no probabilities or real arithmetic and no finite discretisation can be bound to the "
           "continuous implementation (DESIGN.md section 6).",
    "C02": "Numerical analysis of closed-form real functions (roots, powers, floor/fmod laps) with no state or "
           "transitions; an honest oracle would be numeric differential testing, not model checking (DESIGN.md section 6).",
    "C03": "The oracle is a numerically differentiated, fully converged Ewald lattice sum; nothing in it is expressible "
           "over TLC's integers (DESIGN.md section 6).",
}

PENDING = "check planned in DESIGN.md section 5 but not built yet; not claimed until its command exists and is quiet"


def main():
    props = [json.loads(l)["id"] for l in open(os.path.join(ROOT, "properties.jsonl"))]
    checks = []
    for pid in props:
        if pid not in CHECKS:
            continue
        c = CHECKS[pid]
        checks.append(dict(
            property_id=pid,
            quick_cmd="python3 -m harness.check %s quick" % pid,
            thorough_cmd="python3 -m harness.check %s thorough" % pid,
            evidence_file="/verif/evidence/%s.json" % pid,
            replay_cmd_template="python3 -m harness.replay {path}",
            engine="tlc",
            level_claimed=dict(category=c.get("category", "model_checking"), text=c["text"],
                               design_ref="DESIGN.md section " + c["design"]),
            level_note=c["note"],
            technique=c["technique"]))
    na = []
    for pid in props:
        if pid in CHECKS:
            continue
        na.append(dict(property_id=pid, reason=NOT_APPLICABLE.get(pid, PENDING)))
    manifest = dict(
        version=1,
        setup_cmd="python3 -m harness.setup",
        hooks=dict(guard="JELLYFYSH_VERIF",
                   enable="no source hooks: the recorder wraps classes from outside (harness/recorder.py) when "
                          "JELLYFYSH_VERIF=1 is set by the harness for its own sub-processes",
                   baseline_off_cmd="cd /repo && /venv/bin/python -m pytest -ra -q -p no:cacheprovider --timeout=900 "
                                    "--continue-on-collection-errors",
                   source_commits=[], add_only=True),
        engines=[dict(name="tlc", path="/opt/veriftools/tla/tla2tools.jar", serves_properties=sorted(CHECKS),
                      kind_free_text="explicit-state model checker for TLA+; exhaustive design checks, simulation "
                                     "behaviours for replay into the code, validation of recorded traces")],
        checks=checks,
        notes="All checks rebuild a scratch copy of /repo's working tree (harness/build.py) and decide with a TLA+ "
              "specification under specs/. See DESIGN.md.",
        not_applicable=na)
    with open(os.path.join(ROOT, "MANIFEST.json"), "w") as f:
        json.dump(manifest, f, indent=1)
    print("checks:", [c["property_id"] for c in checks])


if __name__ == "__main__":
    main()
