#!/usr/bin/env python3
"""Regenerate MANIFEST.json from the table below (single source of truth for the registered checks)."""
import json
import os

ROOT = os.path.dirname(os.path.dirname(os.path.abspath(__file__)))

CHECKS = {
    "C06": dict(
        technique="TLA+ model checking (TLC) of Heap.tla/SchedAbs.tla + spec->code replay of TLC behaviours + "
                  "code->spec trace validation (TraceHeap.tla) + ASan replay of the validated histories",
        text="Heap.tla transcribes heap.c and HeapScheduler at array level; TLC checks heap order, lazy-deletion "
             "bookkeeping, memory safety, pickle round trip and refinement of the abstract scheduler exhaustively for "
             "small constants. The code is bound to it in both directions: TLC simulation behaviours are replayed into "
             "the real cffi heap / HeapScheduler / ListScheduler / pickle+dill with the C array compared entry by entry "
             "after every call, and long seeded histories executed on the real schedulers (crossing the 64/128 "
             "reallocations and the counter wrap-around) are validated line by line by TLC and re-run through heap.c "
             "under ASan+UBSan.",
        design="5/C06",
        note="Trusted: TLC, the harness replay/recorder code, cffi. Bounded: model constants (2-3 handlers, sizes "
             "3/6/12, MaxCounter 1-2); histories are seeded samples, not all histories."),
}

NOT_APPLICABLE = {
    "C01": "Convergence of sampled observables to exp(-beta U) is a statistical statement over seeds and unbounded "
           "histories; TLA+/TLC has no probabilities or real arithmetic and no finite discretisation can be bound to the "
           "continuous implementation (DESIGN.md section 6).",
    "C02": "Numerical analysis of closed-form real functions (roots, powers, floor/fmod laps) with no state or "
           "transitions; an honest oracle would be numeric differential testing, not model checking (DESIGN.md section 6).",
    "C03": "The oracle is a numerically differentiated, fully converged Ewald lattice sum; nothing in it is expressible "
           "over TLC's integers (DESIGN.md section 6).",
}

PENDING = "check planned in DESIGN.md section 5 but not built yet; not claimed until its command exists and is quiet"


def main():
    props = [json.loads(l)["id"] for l in open(os.path.join(ROOT, "properties.jsonl"))]
    checks = []
    for pid in props:
        if pid not in CHECKS:
            continue
        c = CHECKS[pid]
        checks.append(dict(
            property_id=pid,
            quick_cmd="python3 -m harness.check %s quick" % pid,
            thorough_cmd="python3 -m harness.check %s thorough" % pid,
            evidence_file="/verif/evidence/%s.json" % pid,
            replay_cmd_template="python3 -m harness.replay {path}",
            engine="tlc",
            level_claimed=dict(category=c.get("category", "model_checking"), text=c["text"],
                               design_ref="DESIGN.md section " + c["design"]),
            level_note=c["note"],
            technique=c["technique"]))
    na = []
    for pid in props:
        if pid in CHECKS:
            continue
        na.append(dict(property_id=pid, reason=NOT_APPLICABLE.get(pid, PENDING)))
    manifest = dict(
        version=1,
        setup_cmd="python3 -m harness.setup",
        hooks=dict(guard="JELLYFYSH_VERIF",
                   enable="no source hooks: the recorder wraps classes from outside (harness/recorder.py) when "
                          "JELLYFYSH_VERIF=1 is set by the harness for its own sub-processes",
                   baseline_off_cmd="cd /repo && /venv/bin/python -m pytest -ra -q -p no:cacheprovider --timeout=900 "
                                    "--continue-on-collection-errors",
                   source_commits=[], add_only=True),
        engines=[dict(name="tlc", path="/opt/veriftools/tla/tla2tools.jar", serves_properties=sorted(CHECKS),
                      kind_free_text="explicit-state model checker for TLA+; exhaustive design checks, simulation "
                                     "behaviours for replay into the code, validation of recorded traces")],
        checks=checks,
        notes="All checks rebuild a scratch copy of /repo's working tree (harness/build.py) and decide with a TLA+ "
              "specification under specs/. See DESIGN.md.",
        not_applicable=na)
    with open(os.path.join(ROOT, "MANIFEST.json"), "w") as f:
        json.dump(manifest, f, indent=1)
    print("checks:", [c["property_id"] for c in checks])


if __name__ == "__main__":
    main()
