#!/bin/bash
# usage: try_seed.sh <seed-dir-with-patch.diff> <Cxx> [tier]   -- apply to /repo, run check, revert
set -u
P=$1; C=$2; T=${3:-quick}
cd /repo || exit 9
git -C /repo status --short | grep -v '^??' && { echo "repo dirty"; exit 9; }
git -C /repo apply "$P/patch.diff" || { echo "patch failed"; exit 9; }
cd /verif && python3 -m harness.check "$C" "$T" > /tmp/try_seed.out 2>&1; rc=$?; tail -${TAIL:-15} /tmp/try_seed.out
echo "exit=$rc"
git -C /repo checkout -- . 
git -C /repo status --short | head -3
