#!/bin/bash
# usage: try_seed.sh <seed-dir-with-patch.diff> <Cxx> [tier]
# Applies the seeded patch to a scratch COPY of /repo's working tree (never to /repo itself), runs the check against the
# copy (VERIF_REPO), removes the copy.  Exit code of the check is printed as exit=<n>.
set -u
P=$(readlink -f "$1"); C=$2; T=${3:-quick}
W=$(mktemp -d /var/tmp/seedrepo.XXXXXX)
( cd /repo && git ls-files -z | rsync -a --files-from=- --from0 . "$W/" ) || exit 9
( cd "$W" && git init -q . && git apply "$P/patch.diff" ) || { echo "patch failed"; rm -rf "$W"; exit 9; }
rm -rf "$W/.git"
cd /verif && VERIF_EVIDENCE_DIR="$W/evidence" VERIF_REPO="$W" python3 -m harness.check "$C" "$T" > /tmp/try_seed.$$.out 2>&1; rc=$?
tail -${TAIL:-15} /tmp/try_seed.$$.out
echo "exit=$rc"
rm -rf "$W" /tmp/try_seed.$$.out
