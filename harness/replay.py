"""python3 -m harness.replay <replay.json>: print a recorded violation (what, key, detail) for inspection."""
import json
import sys

d = json.load(open(sys.argv[1]))
print(json.dumps(d, indent=1)[:20000])
