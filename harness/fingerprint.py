"""What a dump has to preserve for the run to continue identically (C19): the persisted objects' iteration orders.

fingerprint(mediator) -> JSON-able structure: for every tagger the in-states it generates now (in order), for every cell
occupancy the occupant lists per cell, the surplus identifiers in yield order and the active cells, the global state, and
the scheduler's entries.  Two mediators (the live one and its dill round trip, which is exactly what DumpingOutputHandler
writes and resume.py loads) must have equal fingerprints."""


def _ids(x):
    if x is None:
        return None
    if isinstance(x, (list, tuple)) and x and isinstance(x[0], int):
        return list(x)
    if isinstance(x, (list, tuple)):
        return [_ids(y) for y in x]
    return repr(x)


def fingerprint(med):
    from jellyfysh.activator.internal_state.cell_occupancy.cell_occupancy import CellOccupancy
    act, sh = med._activator, med._state_handler
    active = sh.extract_active_global_state()
    fp = {}
    handlers = []
    for t in act._taggers:
        handlers += list(t.get_event_handlers())
    hidx = {id(h): i for i, h in enumerate(handlers)}
    # the potentials the event handlers carry (C structs behind cffi are rebuilt on load): probed at two fixed separations
    import jellyfysh.setting as setting
    dim = setting.dimension
    try:
        lengths = list(setting.hypercuboid_setting.system_lengths)
    except Exception:
        lengths = [1.0] * dim
    probes = []
    for i, h in enumerate(handlers):
        for attr in ("_potential", "_bounding_potential"):
            pot = getattr(h, attr, None)
            if pot is None or not hasattr(pot, "derivative") or getattr(pot, "number_separation_arguments", 0) != 1:
                continue
            for fr in ((0.31, 0.17, 0.23), (0.05, 0.41, 0.38)):
                try:
                    val = pot.derivative([1.0] + [0.0] * (dim - 1), [f * L for f, L in zip(fr, lengths)],
                                         *([1.0] * pot.number_charge_arguments))
                    probes.append([i, attr, float.hex(float(val))])
                except Exception as e:      # noqa
                    probes.append([i, attr, type(e).__name__])
    fp["potentials"] = probes
    fp["taggers"] = [[t.tag, [_ids(ids) for ids in t.yield_identifiers_send_event_time(active)]] for t in act._taggers]
    cells = []
    for st in act._internal_states:
        if isinstance(st, CellOccupancy):
            cl = list(st.cells.yield_cells())
            cidx = {c: i for i, c in enumerate(cl)}
            cells.append(dict(occupants=[[list(i) for i in st[c]] for c in cl],
                              surplus=[list(i) for i in st.yield_surplus()],
                              active=[[cidx[c], list(i)] for c, i in st.yield_active_cells()],
                              nearby_of_first=[cidx[c] for c in st.cells.nearby_cells(cl[0])]))
    fp["cells"] = cells
    state = []
    stack = list(sh.extract_global_state())
    while stack:
        n = stack.pop(0)
        u = n.value
        state.append([list(u.identifier), [float.hex(x) for x in u.position],
                      None if u.velocity is None else [float.hex(x) for x in u.velocity],
                      None if u.time_stamp is None else [float.hex(u.time_stamp.quotient), float.hex(u.time_stamp.remainder)]])
        stack = list(n.children) + stack
    fp["state"] = state
    sched = med._scheduler
    entries = []
    try:
        from jellyfysh.scheduler.heap_scheduler.heap_scheduler import lib, ffi
        i = 0
        while True:
            e = lib.entry(sched._heap, i)
            if e.event_handler == ffi.NULL:
                break
            h = ffi.from_handle(e.event_handler)
            entries.append([float.hex(e.time_quotient), float.hex(e.time_remainder), hidx.get(id(h), -1), int(e.counter),
                            int(sched._minimal_valid_counter.get(h, 0))])
            i += 1
    except Exception:
        entries = [[float.hex(x.time.quotient), float.hex(x.time.remainder), hidx.get(id(x.event_handler), -1)]
                   for x in getattr(sched, "_times", [])]
    fp["scheduler"] = entries
    return fp


def first_difference(a, b, path=""):
    if type(a) is not type(b):
        return "%s: %r vs %r" % (path, a, b)
    if isinstance(a, dict):
        for k in a:
            d = first_difference(a[k], b.get(k), path + "/" + str(k))
            if d:
                return d
        return None
    if isinstance(a, list):
        if len(a) != len(b):
            return "%s: lengths %d vs %d" % (path, len(a), len(b))
        for i, (x, y) in enumerate(zip(a, b)):
            d = first_difference(x, y, "%s[%d]" % (path, i))
            if d:
                return d
        return None
    return None if a == b else "%s: %r vs %r" % (path, a, b)
