"""Commit traces (handler, time, out-state, samples) of recorded runs, and their comparison by Lockstep.tla."""
import json
import os

from harness import tlc
from harness.common import extract_printed, plain


def load(path):
    return [json.loads(l) for l in open(path)]


def tables(records, pos=None, vel=None):
    pos = dict(pos or {})
    vel = dict(vel or {})
    for d in records:
        for p in d.get("posdesc", []):
            pos[p[0]] = p[1]
        for v in d.get("veldesc", []):
            vel[v[0]] = v[4]
    return pos, vel


def commit_trace(records, pos, vel, meta=None, start=0):
    """List of comparable records from trace lines records[start:]."""
    meta = meta or records[0]
    hmeta = {h["hid"]: h for h in meta["handlers"]}
    tmeta = meta["taggers"]
    last_time = {}
    out = []
    cur = 0
    for d in records[:start]:
        if d["ev"] in ("time", "push"):
            last_time[d["hid"]] = d["t"]
    for d in records[start:]:
        ev = d["ev"]
        if ev in ("time", "push"):
            last_time[d["hid"]] = d["t"]
        elif ev == "next":
            cur = d["hid"]
        elif ev == "commit":
            tg = tmeta[hmeta[cur]["tag"] - 1] if cur else None
            out.append(dict(k="commit", tag=tg["tag"] if tg else "", hidx=tg["handlers"].index(cur) if tg else 0,
                            t=last_time.get(cur, []), units=[[u[0], pos[u[1]], vel.get(u[2], []), u[3]] for u in d["units"]]))
        elif ev == "write":
            tg = tmeta[hmeta[d["hid"]]["tag"] - 1] if d["hid"] else None
            out.append(dict(k="write", tag=tg["tag"] if tg else "", hidx=0, t=[],
                            units=[[u[0], pos[u[1]], vel.get(u[2], []), u[3]] for u in d["state"]]))
    return out


def compare(sc, name, a, b, stutter, prefix_ok=False):
    """Returns (accepted, detail, tlc result)."""
    path = os.path.join(sc.sub("lock"), name + ".json")
    json.dump(dict(a=a, b=b, stutter=stutter), open(path, "w"))
    res = tlc.run("Lockstep", "Lockstep.cfg", sc.sub("lock_" + name), workers=1, env={"LOCKSTEP_FILE": path}, timeout=900,
                  java_opts=["-XX:ParallelGCThreads=2", "-Xmx3g"])
    v = [plain(x) for x in extract_printed(res.out, "LOCKSTEP")]
    if not v:
        return None, "no verdict: " + (res.error or res.out[-500:]), res
    i, j, la, lb = v[-1]
    ok = (j == lb + 1) and (prefix_ok or i == la + 1 or all(x["tag"] in stutter for x in a[i - 1:]))
    detail = dict(consumed_a=i - 1, consumed_b=j - 1, len_a=la, len_b=lb,
                  next_a=a[i - 1] if i <= la else None, next_b=b[j - 1] if j <= lb else None)
    return ok, detail, res
