"""Scratch copy of /repo's *current working tree* + cffi build.

Every check starts here (DESIGN.md section 3.1).  The copy lives outside /repo and /verif, is built with the
repository's own *_build.py scripts (gcc), and is removed at exit.  All harness sub-processes run with
PYTHONPATH=<scratch> and assert that ``jellyfysh.__file__`` resolves into the scratch copy (the /venv site-packages
directory holds a stale non-editable copy of the package that would otherwise shadow the tree).
"""
import atexit
import os
import shutil
import subprocess
import sys
import tempfile

REPO = os.environ.get("VERIF_REPO", "/repo")
PY = os.environ.get("VERIF_PYTHON", "/venv/bin/python")
GUARD = "JELLYFYSH_VERIF"

_BUILD_SCRIPTS = [
    "jellyfysh/scheduler/heap_scheduler/heap_build.py",
    "jellyfysh/potential/merged_image_coulomb_potential/merged_image_coulomb_potential_build.py",
    "jellyfysh/potential/inverse_power_coulomb_bounding_potential/inverse_power_coulomb_bounding_potential_build.py",
]


def scratch_root():
    base = os.environ.get("VERIF_SCRATCH") or os.environ.get("TMPDIR") or "/var/tmp"
    os.makedirs(base, exist_ok=True)
    return base


class Scratch:
    """Context manager: scratch directory with a built copy of the working tree in ``<dir>/repo``."""

    def __init__(self, build_repo=True, keep=False):
        self.build_repo = build_repo
        self.keep = keep
        self.dir = None
        self.repo = None

    def __enter__(self):
        self.dir = tempfile.mkdtemp(prefix="jfverif.", dir=scratch_root())
        atexit.register(self.cleanup)
        if self.build_repo:
            self.repo = os.path.join(self.dir, "repo")
            copy_tree(REPO, self.repo)
            build_extensions(self.repo)
        return self

    def __exit__(self, *exc):
        self.cleanup()
        return False

    def cleanup(self):
        if self.dir and not self.keep and os.path.isdir(self.dir):
            shutil.rmtree(self.dir, ignore_errors=True)

    def sub(self, name):
        path = os.path.join(self.dir, name)
        os.makedirs(path, exist_ok=True)
        return path

    def env(self, **extra):
        env = dict(os.environ)
        env["PYTHONPATH"] = self.repo + os.pathsep + os.path.dirname(os.path.dirname(os.path.abspath(__file__)))
        env["PYTHONHASHSEED"] = "0"
        env["PYTHONDONTWRITEBYTECODE"] = "1"
        env[GUARD] = "1"
        env["VERIF_SCRATCH_REPO"] = self.repo
        env.update({k: str(v) for k, v in extra.items()})
        return env


def copy_tree(src, dst):
    """Copy the working tree (tracked or not), without VCS data, build output and compiled extensions."""
    def ignore(directory, names):
        skip = set()
        for name in names:
            if name in (".git", "build", "__pycache__", ".pytest_cache", "SEED") or name.endswith(".egg-info"):
                skip.add(name)
            elif name.endswith((".so", ".o", ".pyc")):
                skip.add(name)
            elif name.startswith("_") and name.endswith(".c") and os.path.exists(
                    os.path.join(directory, name[1:-2] + "_build.py")):
                skip.add(name)  # cffi-generated C source
        return skip
    shutil.copytree(src, dst, ignore=ignore, symlinks=True)


def build_extensions(repo):
    procs = []
    for script in _BUILD_SCRIPTS:
        if os.path.exists(os.path.join(repo, script)):
            procs.append((script, subprocess.Popen([PY, script], cwd=repo, stdout=subprocess.PIPE,
                                                   stderr=subprocess.STDOUT)))
    for script, proc in procs:
        out, _ = proc.communicate()
        if proc.returncode != 0:
            sys.stderr.write(out.decode(errors="replace")[-4000:])
            raise BuildError("building {} failed in the scratch copy of the working tree".format(script))


class BuildError(Exception):
    pass


def run_py(scratch, args, timeout=600, extra_env=None, cwd=None, input=None):
    """Run a harness python process against the scratch copy."""
    env = scratch.env(**(extra_env or {}))
    covdir = os.environ.get("VERIF_COVERAGE")
    if covdir and args and args[0] == "-m":
        # development aid (tools/coverage_report.py): which lines of the package do the harness processes execute?
        os.makedirs(covdir, exist_ok=True)
        args = ["-m", "coverage", "run", "--parallel-mode", "--data-file", os.path.join(covdir, ".coverage"),
                "--source", os.path.join(scratch.repo, "jellyfysh")] + list(args)
    # own session: on a timeout (e.g. a dead-locked multi-process run) the whole process group is killed
    proc = subprocess.Popen([PY] + list(args), env=env, cwd=cwd or scratch.dir, stdout=subprocess.PIPE,
                            stderr=subprocess.PIPE, stdin=subprocess.PIPE if input is not None else None, text=True,
                            start_new_session=True)
    try:
        out, err = proc.communicate(input=input, timeout=timeout)
    except subprocess.TimeoutExpired:
        import signal
        try:
            os.killpg(proc.pid, signal.SIGKILL)
        except Exception:
            pass
        out, err = proc.communicate()
        return subprocess.CompletedProcess(proc.args, -9, out, (err or "") + "\nTIMEOUT after %ss" % timeout)
    finally:
        try:
            import signal
            os.killpg(proc.pid, signal.SIGKILL)      # no stray worker processes survive a harness run
        except Exception:
            pass
    return subprocess.CompletedProcess(proc.args, proc.returncode, out, err)


def assert_scratch_import():
    """Called by harness sub-processes: the package must come from the scratch copy."""
    import jellyfysh
    want = os.environ.get("VERIF_SCRATCH_REPO")
    if want and not os.path.abspath(jellyfysh.__file__).startswith(os.path.abspath(want) + os.sep):
        raise RuntimeError("jellyfysh imported from {} instead of scratch copy {}".format(jellyfysh.__file__, want))
