"""Shared plumbing of the checks: verdict accumulation, evidence files, known findings, replay files."""
import json
import os
import sys
import time
import traceback

ROOT = os.path.dirname(os.path.dirname(os.path.abspath(__file__)))
EVIDENCE = os.environ.get("VERIF_EVIDENCE_DIR") or os.path.join(ROOT, "evidence")   # seeded runs write elsewhere
OUT = os.path.join(ROOT, "out")
KNOWN = os.path.join(ROOT, "known_findings.json")


def known_findings():
    if not os.path.exists(KNOWN):
        return []
    return json.load(open(KNOWN)).get("findings", [])


class Check:
    """One run of one property's check."""

    def __init__(self, pid, tier, seed):
        self.pid = pid
        self.tier = tier
        self.seed = seed
        self.t0 = time.time()
        self.states = 0
        self.transitions = 0
        self.traces = 0
        self.evaluations = 0
        self.samples = []
        self.assumptions = []
        self.trusted = ["TLC 1.8 (tla2tools.jar) and CommunityModules", "harness/tlc.py TLA+ value parser"]
        self.violations = []      # dicts: key, what, replay
        self.known_hits = []
        self.notes = {}
        self.tlc_runs = []
        self.machinery_errors = []
        self.coverage_actions = {}
        self.inconclusive = 0

    # ------------------------------------------------------------------ accumulation
    def add_tlc(self, label, res, require_ok=True):
        self.states += res.distinct
        self.transitions += res.generated
        self.tlc_runs.append(dict(label=label, **res.summary()))
        for k, v in res.coverage.items():
            self.coverage_actions[label + "." + k] = v[1]
        if res.error:
            self.machinery_errors.append("%s: %s" % (label, res.error))
        return res

    def sample(self, obj, limit=6):
        if len(self.samples) < limit:
            self.samples.append(obj)

    def violation(self, key, what, detail=None):
        """Record a violation.  ``key`` identifies the failing input / call site for the known-findings filter."""
        for kf in known_findings():
            if kf.get("property") == self.pid and kf.get("status", "open") == "open" and kf.get("key") == key:
                if key not in [k["key"] for k in self.known_hits]:
                    self.known_hits.append(dict(key=key, what=kf.get("what", what)))
                return False
        self.viol_counts = getattr(self, "viol_counts", {})
        self.viol_counts[key] = self.viol_counts.get(key, 0) + 1
        if self.viol_counts[key] > 3:      # report at most three instances per failing clause / input class
            return True
        os.makedirs(os.path.join(OUT, "replay"), exist_ok=True)
        path = os.path.join(OUT, "replay", "%s-%d.json" % (self.pid, len(self.violations)))
        with open(path, "w") as f:
            json.dump(dict(property=self.pid, key=key, what=what, detail=detail, tier=self.tier, seed=self.seed),
                      f, indent=1, default=str)
        self.violations.append(dict(key=key, what=what, replay=path))
        return True

    def machinery(self, msg):
        self.machinery_errors.append(msg)

    # ------------------------------------------------------------------ finish
    def finish(self, level="model_checking", extra_cov=None):
        wall = time.time() - self.t0
        cov = dict(states=max(self.states, 0), transitions=max(self.transitions, 0),
                   traces_validated_against_impl=self.traces,
                   samples=self.samples if self.samples else ["(no sample recorded)"],
                   evaluations=self.evaluations,
                   trusted_base=self.trusted, tlc_runs=self.tlc_runs, inconclusive=self.inconclusive,
                   known_findings_seen=[k["key"] for k in self.known_hits])
        if self.coverage_actions:
            cov["action_counts"] = self.coverage_actions
        cov.update(self.notes)
        if extra_cov:
            cov.update(extra_cov)
        ev = dict(property_id=self.pid, tier=self.tier, seed=self.seed, level=level, coverage=cov,
                  assumptions=self.assumptions, wall_s=round(wall, 2), violations=len(self.violations))
        os.makedirs(EVIDENCE, exist_ok=True)
        with open(os.path.join(EVIDENCE, self.pid + ".json"), "w") as f:
            json.dump(ev, f, indent=1, default=str)
        for k in self.known_hits:
            print("KNOWN-FINDING: property=%s %s" % (self.pid, k["what"]))
        if self.violations:
            for v in self.violations:
                print("VIOLATION property=%s replay=%s" % (self.pid, v["replay"]))
                print("  what: %s" % v["what"])
            for m in self.machinery_errors:
                print("NOTE (machinery): %s" % m)
            return 1
        if self.machinery_errors:
            for m in self.machinery_errors:
                print("MACHINERY-ERROR: %s" % m)
            return 2
        print("OK property=%s tier=%s states=%d transitions=%d traces=%d wall=%.1fs" % (
            self.pid, self.tier, self.states, self.transitions, self.traces, wall))
        return 0


def extract_printed(out, tag):
    """Yield the TLA+ values printed by PrintT(<<tag, value>>) (multi-line, possibly many) from TLC output."""
    from harness.tlc import _P
    import re
    marker = re.compile(r'<<\s*"%s",' % re.escape(tag))
    i = 0
    while True:
        m = marker.search(out, i)
        if not m:
            return
        j = m.start()
        p = _P(out)
        p.i = j
        v = p.value()
        i = p.i
        yield v[1] if len(v) == 2 else tuple(v[1:])


def plain(v):
    """TLA+ parsed value -> JSON-able (tuples -> lists, frozensets -> sorted lists, int keys -> lists when dense)."""
    if isinstance(v, tuple):
        return [plain(x) for x in v]
    if isinstance(v, frozenset):
        return sorted((plain(x) for x in v), key=lambda x: json.dumps(x, sort_keys=True))
    if isinstance(v, dict):
        if v and all(isinstance(k, int) for k in v):
            ks = sorted(v)
            if ks == list(range(1, len(ks) + 1)):
                return [plain(v[k]) for k in ks]
            return {str(k): plain(v[k]) for k in ks}
        return {str(k): plain(x) for k, x in v.items()}
    return v


def extract_json(out, tag):
    """Values printed by PrintT(<<tag, ToJson(v)>>): one JSON document per line-group."""
    import re
    res = []
    for m in re.finditer(r'<<\s*"%s",\s*("(?:[^"\\]|\\.)*")\s*>>' % re.escape(tag), out, re.S):
        text = m.group(1).replace("\n", " ")
        res.append(json.loads(json.loads(text)))
    return res
