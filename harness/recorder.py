"""Recorder: instrumentation of a real JeLLyFysh run *from outside* (DESIGN.md section 3.2, appendix A).

Class-level wrappers (functools.wraps, so inspect.signature is unchanged) are installed on the component boundaries
before the mediator is built; every wrapper logs after the wrapped call returned.  Output: one JSON object per line.
Nothing is decided here: the records carry interned ids, order-preserving float keys (harness/f64.py) and residuals
measured in exact rational arithmetic; TraceEcmc.tla is the judge.

Unit state in records: [uid, posId, velId, tsKey]   (velId 0 = no velocity, tsKey = NaN marker when no time stamp)
"""
import functools
import importlib
import json
import math
import os
import pkgutil
import random
import sys
from fractions import Fraction

from harness.f64 import fkey, NAN

NANT = [list(NAN), list(NAN)]
INF = float("inf")


def tkey(t):
    if t is None:
        return [list(NAN), list(NAN)]
    return [fkey(t.quotient), fkey(t.remainder)]


class StopRun(Exception):
    pass


class Recorder:
    def __init__(self, path, max_legs=None, label=""):
        self.out = open(path, "w")
        self.pid = os.getpid()
        self.streams = None          # per-handler random streams (C20): hid -> random.Random
        self.stream_seed = 0
        self.cur_stream = None
        self.cur_handler = None      # the event handler whose send_out_state is being executed
        self.hid_instate = {}        # hid -> {identifier: (position, velocity, time stamp)} when its candidate was computed
        self.delays = {}             # hid -> (seconds before answering send_event_time, before answering send_out_state)
        self.max_legs = max_legs
        self.label = label
        self.seq = 0
        self.legs = 0
        self.uids = {}            # identifier tuple -> uid (1-based)
        self.pos_ids = {}
        self.vel_ids = {}
        self.charge_ids = {}
        self.new_pos = []
        self.new_vel = []
        self.hids = {}            # id(handler) -> hid
        self.handlers = []
        self.hid_time = {}        # hid -> last candidate Time
        self.ctx = None           # event list of the handler call in progress
        self.depth_insert = 0
        self.mediator = None
        self.cellsys = []
        self.hid_cellsys = {}
        self.L = None
        self.speed = None
        self.last_commit_time = None
        self.stop_reason = None
        self.nsamples = 0
        self.sample_calls = {}
        self.sample_writes = {}
        self.pre_ts = {}
        self.levels = None
        self.sample_first = {}
        self.end_time = None

    # ------------------------------------------------------------------ low level
    def emit(self, ev, **rec):
        if os.getpid() != self.pid:
            return               # forked event-handler processes of the multi-process mediator do not write
        self.seq += 1
        rec["ev"] = ev
        rec["seq"] = self.seq
        self.out.write(json.dumps(rec) + "\n")

    def close(self):
        self.out.flush()
        self.out.close()

    def uid(self, identifier):
        return self.uids[tuple(identifier)]

    def pos_id(self, position):
        key = tuple(0.0 if x == 0.0 else x for x in position)
        i = self.pos_ids.get(key)
        if i is None:
            i = self.pos_ids[key] = len(self.pos_ids) + 1
            self.new_pos.append([i, [fkey(x) for x in key]])
        return i

    def vel_id(self, velocity):
        if velocity is None:
            return 0
        key = tuple(0.0 if x == 0.0 else x for x in velocity)
        i = self.vel_ids.get(key)
        if i is None:
            i = self.vel_ids[key] = len(self.vel_ids) + 1
            nz = [x for x in key if x != 0.0]
            norm = math.sqrt(float(sum(Fraction(x) ** 2 for x in key)))
            exact_norm2 = sum(Fraction(x) ** 2 for x in key)
            if self.speed:
                # | |v|^2 - s^2 | / (2 s^2) ~ | |v| - s | / s, in units of 2^-40 (exact rationals, no square root)
                sres = min(10 ** 9, int(math.ceil(abs(exact_norm2 - self.speed ** 2) / (2 * self.speed ** 2) * 2 ** 40)))
            else:
                sres = 0
            self.new_vel.append([i, len(nz), fkey(nz[0]) if len(nz) == 1 else list(NAN), fkey(norm),
                                 [fkey(x) for x in key], sres])
        return i

    def charge_id(self, charge):
        key = json.dumps(charge, sort_keys=True, default=str)
        return self.charge_ids.setdefault(key, len(self.charge_ids) + 1)

    def ustate(self, unit):
        if self.speed is None and unit.velocity is not None and self.levels is not None \
                and len(unit.identifier) == self.levels:
            self.speed = Fraction(math.sqrt(float(sum(Fraction(x) ** 2 for x in unit.velocity))))
            if sum(1 for x in unit.velocity if x != 0.0) == 1:
                self.speed = abs(Fraction([x for x in unit.velocity if x != 0.0][0]))
        return [self.uid(unit.identifier), self.pos_id(unit.position), self.vel_id(unit.velocity), tkey(unit.time_stamp)]

    def walk(self, nodes):
        for n in nodes:
            if n is None:
                continue
            yield n
            yield from self.walk(n.children)

    def states(self, nodes):
        return [self.ustate(n.value) for n in self.walk(nodes)]

    def full_state(self):
        nodes = self.mediator._state_handler.extract_global_state()
        return [self.ustate(n.value) + [self.charge_id(n.value.charge)] for n in self.walk(nodes)]

    def drain_descs(self):
        p, v = self.new_pos, self.new_vel
        self.new_pos, self.new_vel = [], []
        return dict(posdesc=p, veldesc=v)

    def hid(self, handler):
        return self.hids.get(id(handler), 0)

    # ------------------------------------------------------------------ per-handler random streams and worker delays (C20)
    def stream_of(self, hid):
        if self.streams is None or not hid:
            return None
        s = self.streams.get(hid)
        if s is None:
            s = self.streams[hid] = random.Random(self.stream_seed * 7919 + hid)
        return s

    def worker_delay(self, hid, phase):
        if os.getpid() != self.pid and hid in self.delays and len(self.delays[hid]) > phase and self.delays[hid][phase] > 0:
            import time
            time.sleep(self.delays[hid][phase])

    # ------------------------------------------------------------------ dump / resume support
    def save_dump_copy(self, output_handler):
        """Copy the dump file just written and store the recorder's own tables next to it, so that the recorder of a
        resumed process continues the numbering (interned ids, sample counters) of the dumping process."""
        import shutil
        self.ndumps = getattr(self, "ndumps", 0) + 1
        src = output_handler._output_filename
        dst = os.path.join(os.path.dirname(os.path.abspath(self.out.name)),
                           os.path.basename(self.out.name)[:-7] + ".dump%d.dat" % self.ndumps)
        shutil.copyfile(src, dst)
        state = dict(pos=[[list(map(float.hex, k)), v] for k, v in self.pos_ids.items()],
                     vel=[[list(map(float.hex, k)), v] for k, v in self.vel_ids.items()],
                     charge=list(self.charge_ids.items()),
                     hid_time={str(h): [float(t.quotient).hex(), float(t.remainder).hex()] for h, t in self.hid_time.items()},
                     sample_calls=self.sample_calls, sample_writes=self.sample_writes, sample_first={str(k): [v.numerator, v.denominator] for k, v in self.sample_first.items()},
                     speed=[self.speed.numerator, self.speed.denominator] if self.speed else None,
                     legs=self.legs, seq=self.seq, ndumps=self.ndumps, end_time=self.end_time)
        json.dump(state, open(dst + ".rec.json", "w"))
        return self.ndumps

    def load_state(self, path):
        from jellyfysh.base.time import Time
        st = json.load(open(path))
        self.pos_ids = {tuple(float.fromhex(x) for x in k): v for k, v in st["pos"]}
        self.vel_ids = {tuple(float.fromhex(x) for x in k): v for k, v in st["vel"]}
        self.charge_ids = dict((k, v) for k, v in st["charge"])
        self.hid_time = {int(h): Time(float.fromhex(q), float.fromhex(r)) for h, (q, r) in st["hid_time"].items()}
        self.sample_calls = {int(k): v for k, v in st["sample_calls"].items()}
        self.sample_first = {int(k): Fraction(a, b) for k, (a, b) in st["sample_first"].items()}
        self.sample_writes = {int(k): v for k, v in st.get("sample_writes", {}).items()}
        self.speed = Fraction(*st["speed"]) if st["speed"] else None
        self.legs, self.seq, self.ndumps, self.end_time = st["legs"], st["seq"], st["ndumps"], st["end_time"]
        self.resumed = True

    # ------------------------------------------------------------------ init record
    def on_mediator_built(self, mediator):
        import jellyfysh.setting as setting
        from jellyfysh.activator.internal_state.cell_occupancy.cell_occupancy import CellOccupancy
        self.mediator = mediator
        self.levels = setting.number_of_node_levels
        act = mediator._activator
        nodes = mediator._state_handler.extract_global_state()
        units = []
        parent = []
        for n in self.walk(nodes):
            ident = tuple(n.value.identifier)
            self.uids[ident] = len(self.uids) + 1
            units.append(list(ident))
        for n in self.walk(nodes):
            parent.append(self.uids[tuple(n.parent.value.identifier)] if n.parent is not None else 0)
        weights = [fkey(n.weight) for n in self.walk(nodes)]
        taggers = list(act._taggers)
        tag_index = {t: i + 1 for i, t in enumerate(taggers)}
        by_tag = {t.tag: t for t in taggers}
        self.taggers = taggers
        self.tag_index = tag_index
        trec = []
        for t in taggers:
            handlers = t.get_event_handlers()
            for h in handlers:
                self.hids[id(h)] = len(self.handlers) + 1
                self.handlers.append(h)
            trec.append(dict(tag=t.tag, cls=type(t).__name__, kind=tagger_kind(t),
                             creates=[tag_index[by_tag[x]] for x in t.creates],
                             trashes=[tag_index[by_tag[x]] for x in t.trashes],
                             activates=[tag_index[by_tag[x]] for x in t.activates],
                             deactivates=[tag_index[by_tag[x]] for x in t.deactivates],
                             pool=len(handlers), handlers=[self.hid(h) for h in handlers],
                             hcls=type(handlers[0]).__name__, sys=0, fmap=factor_map_of(t),
                             rootmode=int(any(c.__name__.startswith("RootUnitActive") for c in type(handlers[0]).__mro__)),
                             aim=getattr(getattr(handlers[0], "_aim_mode", None), "name", ""),
                             start=[list(getattr(handlers[0], "_initial_active_identifier", []))]))
        hrec = []
        for h in self.handlers:
            tg = act._event_handler_tagger_dictionary[h]
            hrec.append(dict(hid=self.hid(h), tag=tag_index[tg], cls=type(h).__name__, thinning=int(is_thinning(h)),
                             dominating=int(is_dominating_pair(h))))
        # cell systems
        for st in act._internal_states:
            if isinstance(st, CellOccupancy):
                cl = list(st.cells.yield_cells())
                self.cellsys.append(dict(obj=st, cells=cl, index={c: i for i, c in enumerate(cl)}))
        crec = []
        for i, cs in enumerate(self.cellsys, start=1):
            st = cs["obj"]
            crec.append(dict(sys=i, level=st.cell_level, maxocc=(0 if getattr(st, "_number_occupants_not_bounded", False)
                                                                   else st._maximum_number_occupants),
                             ncells=len(cs["cells"]), ids=[list(c.identifier) for c in cs["cells"]],
                             per_side=list(st.cells._cells_per_side), layers=st.cells._neighbor_layers,
                             relevant=[self.uid(n.value.identifier) for n in self.walk(nodes)
                                       if len(n.value.identifier) == st.cell_level and relevant_by_charge(st, n.value)]))
        for ti, t in enumerate(taggers):
            st = getattr(t, "_internal_state", None)
            for i, cs in enumerate(self.cellsys, start=1):
                if st is cs["obj"]:
                    trec[ti]["sys"] = i
                    for h in t.get_event_handlers():
                        self.hid_cellsys[self.hid(h)] = i
            trec[ti]["start"] = [self.uids[tuple(x)] for x in trec[ti]["start"] if tuple(x) in self.uids]
        try:
            self.L = list(setting.hypercuboid_setting.system_lengths)
        except Exception:
            import jellyfysh.setting.hypercuboid_setting as hcs
            self.L = list(hcs.system_lengths)
        self.emit("init", label=self.label, units=units, parent=parent, weights=weights, dim=setting.dimension,
                  L=[fkey(x) for x in self.L], nroots=setting.number_of_root_nodes,
                  nleaves=setting.number_of_nodes_per_root_node, levels=setting.number_of_node_levels,
                  taggers=trec, handlers=hrec, cellsys=crec, scheduler=type(mediator._scheduler).__name__,
                  state=self.full_state(), **self.end_fields(), **self.drain_descs())

    def end_fields(self):
        if self.end_time is None:
            return {}
        q, rem = divmod(self.end_time, 1.0)
        return dict(end_time=[fkey(q), fkey(rem)])

    # ------------------------------------------------------------------ cell truth
    def cell_truth(self, now):
        """Per cell system: bookkeeping read from the object and the true cell of every relevant unit."""
        import jellyfysh.setting as setting
        res = []
        sh = self.mediator._state_handler
        for i, cs in enumerate(self.cellsys, start=1):
            st = cs["obj"]
            idx = cs["index"]
            act = list(st.yield_active_cells())
            occ = [[idx[c], [self.uid(u) for u in st[c]]] for c in cs["cells"] if st[c]]
            sur = [[idx[c], [self.uid(u) for u in lst]] for c, lst in st._surplus.items()]
            truth = []
            ambiguous = []
            for n in self.walk(sh.extract_global_state()):
                u = n.value
                if len(u.identifier) != st.cell_level or not relevant_by_charge(st, u):
                    continue
                cell, amb = self.exact_cell(cs, u, now)
                truth.append([self.uid(u.identifier), cell])
                if amb:
                    ambiguous.append(self.uid(u.identifier))
            res.append(dict(sys=i, activeUid=self.uid(act[0][1]) if act else 0, activeCell=idx[act[0][0]] if act else -1,
                            occ=occ, surplus=sur, truth=truth, ambiguous=ambiguous))
        return res

    def exact_cell(self, cs, unit, now):
        """Cell of the unit's position advanced to `now`, decided on exact rationals against the recorded extents."""
        dim = len(unit.position)
        pos = [Fraction(x) for x in unit.position]
        if unit.velocity is not None and now is not None and unit.time_stamp is not None:
            dt = (Fraction(now.quotient) - Fraction(unit.time_stamp.quotient)
                  + Fraction(now.remainder) - Fraction(unit.time_stamp.remainder))
            pos = [p + Fraction(v) * dt for p, v in zip(pos, unit.velocity)]
        pos = [p - (p // Fraction(L)) * Fraction(L) for p, L in zip(pos, self.L)]
        ambiguous = False
        best = None
        for i, c in enumerate(cs["cells"]):
            inside = True
            for d in range(dim):
                lo, hi = Fraction(c.cell_min[d]), Fraction(math.nextafter(c.cell_max[d], INF))
                if not (lo <= pos[d] < hi):
                    inside = False
                    break
                if pos[d] - lo < Fraction(math.ulp(c.cell_max[d])) * 4 or hi - pos[d] < Fraction(math.ulp(c.cell_max[d])) * 4:
                    if not (unit.velocity is None or pos[d] == Fraction(unit.position[d])):
                        ambiguous = True          # recomputed position within a few ulps of a cell face
            if inside:
                best = i
                break
        if best is None:
            return -1, True
        return best, ambiguous


# ----------------------------------------------------------------------------------------------------------------------
def tagger_kind(tagger):
    from jellyfysh.event_handler.abstracts import (SamplingEventHandler, EndOfChainEventHandler, EndOfRunEventHandler,
                                                   DumpingEventHandler, StartOfRunEventHandler)
    name = type(tagger).__mro__
    names = [c.__name__ for c in name]
    h = tagger.get_event_handlers()[0] if tagger.get_event_handlers() else tagger._event_handler_to_copy
    if "FactorTypeMapInStateTagger" in names:
        return "factor_map"
    if "ExcludedCellsTagger" in names:
        return "excluded_cells"
    if "SurplusCellsTagger" in names:
        return "surplus_cells"
    if "CellVetoTagger" in names:
        return "cell_veto"
    if "CellBoundingPotentialTagger" in names:
        return "cell_bounding"
    if "CellBoundaryTagger" in names:
        return "cell_boundary"
    if isinstance(h, SamplingEventHandler):
        return "sampling"
    if isinstance(h, EndOfChainEventHandler):
        return "end_of_chain"
    if isinstance(h, EndOfRunEventHandler):
        return "end_of_run"
    if isinstance(h, DumpingEventHandler):
        return "dumping"
    if isinstance(h, StartOfRunEventHandler):
        return "start_of_run"
    if "ActiveRootUnitInStateTagger" in names:
        return "active_root_unit"
    return "other"


def factor_map_of(tagger):
    """Index sets of a FactorTypeMapInStateTagger as read by the real FactorTypeMaps (for the design model)."""
    fm = getattr(tagger, "_factor_type_map", None)
    if fm is None:
        return dict(kind="none", local=0, lines=[])
    if type(fm).__name__ == "_AllLeafUnitFactorTypeMap":
        return dict(kind="all", local=0, lines=[])
    lines = []
    for idx, lst in fm.map.items():
        for line in lst:
            if list(line) not in lines:
                lines.append(list(line))
    return dict(kind="map", local=int(bool(fm._local)), lines=lines)


def relevant_by_charge(occupancy, unit):
    """Relevance of a unit for a cell-occupancy system as *documented* (filter charge unequal zero), decided from the name
    of the filter charge (read from the closure of the object's own predicate) and the unit's charge -- not by calling
    the object's predicate, which is part of what is being checked."""
    pred = getattr(occupancy, "_is_relevant_unit", None)
    name = None
    for cell in (getattr(pred, "__closure__", None) or ()):
        try:
            if isinstance(cell.cell_contents, str):
                name = cell.cell_contents
        except ValueError:
            pass
    if name is None:
        return True
    return unit.charge[name] != 0


def is_thinning(handler):
    for cls in type(handler).__mro__:
        mod = sys.modules.get(cls.__module__)
        if mod is not None and hasattr(mod, "bounding_potential_warning") and cls.__module__.startswith("jellyfysh.event_handler"):
            return True
    return False


def is_dominating_pair(handler):
    b = getattr(handler, "_bounding_potential", None)
    p = getattr(handler, "_potential", None)
    return (type(b).__name__ == "InversePowerCoulombBoundingPotential" and type(p).__name__ == "MergedImageCoulombPotential")


REC = None


def install(recorder):
    """Install the class-level wrappers.  Must run before the mediator is constructed."""
    global REC
    REC = recorder
    import jellyfysh.event_handler as eh_pkg
    for m in pkgutil.walk_packages(eh_pkg.__path__, eh_pkg.__name__ + "."):
        try:
            importlib.import_module(m.name)
        except Exception:
            pass
    import jellyfysh.lifting as lift_pkg
    for m in pkgutil.walk_packages(lift_pkg.__path__, lift_pkg.__name__ + "."):
        try:
            importlib.import_module(m.name)
        except Exception:
            pass
    from jellyfysh.event_handler.event_handler import EventHandler
    from jellyfysh.activator.tag_activator import TagActivator
    from jellyfysh.state_handler.tree_state_handler import TreeStateHandler
    from jellyfysh.scheduler.heap_scheduler.heap_scheduler import HeapScheduler
    from jellyfysh.scheduler.list_scheduler import ListScheduler
    from jellyfysh.input_output_handler.input_output_handler import InputOutputHandler
    from jellyfysh.mediator.mediator import MediatorAbstractClass
    from jellyfysh.lifting.lifting import Lifting
    from jellyfysh.event_handler.walker import Walker
    from jellyfysh.base.exceptions import EndOfRun

    def wrap(cls, name, make):
        # the method may be inherited (e.g. InversePowerCoulombBoundingPotential.derivative lives in an abstract base class):
        # the wrapper is then installed on this class and calls the inherited function
        orig = cls.__dict__[name] if name in cls.__dict__ else getattr(cls, name)
        if getattr(orig, "_verif_wrapped", False):
            return
        new = make(orig)
        new = functools.wraps(orig)(new)
        new._verif_wrapped = True
        setattr(cls, name, new)

    # ---- mediator construction
    def mk_init(orig):
        def __init__(self, *a, **k):
            orig(self, *a, **k)
            if REC.mediator is None:
                REC.on_mediator_built(self)
        return __init__
    wrap(MediatorAbstractClass, "__init__", mk_init)

    # ---- multi-process mediator: stage map and event sets of the mediator process (C20, TraceMedStage.tla)
    try:
        from jellyfysh.mediator.multi_process_mediator.multi_process_mediator import MultiProcessMediator

        class StageDict(dict):
            def __init__(self, med, *a):
                super().__init__(*a)
                self.med = med

            def __setitem__(self, pipe, value):
                super().__setitem__(pipe, value)
                h = self.med._event_handlers.get(pipe)
                REC.emit("stage", hid=REC.hid(h) if h is not None else 0, to=value.name)

        def mk_start(orig):
            def _start_processes(self, *a, **k):
                orig(self, *a, **k)
                self._event_handlers_state = StageDict(self, self._event_handlers_state)
                for which, events in (("start", self._start_events), ("continue", self._send_out_state_events)):
                    for pipe, ev in events.items():
                        h = self._event_handlers[pipe]

                        def logged_set(_set=ev.set, _h=h, _w=which):
                            _set()
                            REC.emit("evset", hid=REC.hid(_h), which=_w)
                        ev.set = logged_set
                REC.emit("mpinit", cores=self._number_cores,
                         outargs=[REC.hid(h) for h in self._event_handlers_list if h.number_send_out_state_arguments])
            return _start_processes
        wrap(MultiProcessMediator, "_start_processes", mk_start)

        # worker side: a harness-chosen pause after the worker released the semaphore (phase 2), i.e. between two of its
        # synchronisation operations -- the mediator may run a whole leg in between
        import jellyfysh.mediator.multi_process_mediator.multi_process_mediator as mpm
        orig_rip = mpm.run_in_process

        class WorkerLog:
            """Per-worker log of its synchronisation operations, in program order (one file per worker process): the
            worker side of MultiProc.tla, validated by TraceWorker.tla."""

            def __init__(self, hid, handler):
                self.hid, self.n = hid, 0
                self.f = open("%s.w%d" % (REC.out.name, hid), "w") if hid else None
                self("init", tin=int(handler.number_send_event_time_arguments > 0),
                     tout=int(handler.number_send_out_state_arguments > 0))

            def __call__(self, op, **kw):
                if self.f is not None:
                    self.n += 1
                    self.f.write(json.dumps(dict(hid=self.hid, seq=self.n, op=op, **kw)) + "\n")
                    self.f.flush()

        class PausingSemaphore:
            def __init__(self, inner, hid, log):
                self.inner, self.hid, self.log = inner, hid, log

            def acquire(self, *a, **k):
                r = self.inner.acquire(*a, **k)
                self.log("acquire")
                return r

            def release(self):
                self.inner.release()
                self.log("release")
                REC.worker_delay(self.hid, 2)

        class LoggedEvent:
            def __init__(self, inner, name, log):
                self.inner, self.name, self.log = inner, name, log

            def wait(self, *a, **k):
                r = self.inner.wait(*a, **k)
                self.log("wait_" + self.name)
                return r

            def is_set(self):
                return self.inner.is_set()

            def clear(self):
                self.inner.clear()
                self.log("clear_" + self.name)

            def set(self):
                self.inner.set()
                self.log("set_" + self.name)

        class LoggedPipe:
            def __init__(self, inner, log):
                self.inner, self.log = inner, log

            def recv(self):
                r = self.inner.recv()
                self.log("recv")
                return r

            def send(self, obj):
                self.inner.send(obj)
                self.log("send")

            def __getattr__(self, name):
                return getattr(self.inner, name)

        @functools.wraps(orig_rip)
        def run_in_process(self, pipe, start_event, continue_event, start_or_continue_event, semaphore):
            hid = REC.hid(self)
            log = WorkerLog(hid, self)
            return orig_rip(self, LoggedPipe(pipe, log), LoggedEvent(start_event, "start", log),
                            LoggedEvent(continue_event, "continue", log), LoggedEvent(start_or_continue_event, "or", log),
                            PausingSemaphore(semaphore, hid, log))
        mpm.run_in_process = run_in_process
    except Exception:
        pass

    # ---- activator
    def mk_run(orig):
        def run(self, *a, **k):
            # arguments are passed through untouched (a wrapper must not pin down the signature of what it wraps)
            ret = orig(self, *a, **k)
            extracted_active_global_state = a[0] if a else k.get("extracted_active_global_state")
            preceding_event_handler = a[1] if len(a) > 1 else k.get("preceding_event_handler")
            r = REC
            now = r.hid_time.get(r.hid(preceding_event_handler)) if preceding_event_handler is not None else None
            fresh = []
            for t in r.taggers:
                gen = [ids_of(x) for x in t.yield_identifiers_send_event_time(extracted_active_global_state)]
                fresh.append([r.tag_index[t], gen])
            activated = [int(t.yield_identifiers_send_event_time is not t._deactivated_yield_identifiers_send_event_time)
                         for t in r.taggers]
            r.legs += 1
            r.emit("run", leg=r.legs, prev=r.hid(preceding_event_handler) if preceding_event_handler is not None else 0,
                   active=r.states(extracted_active_global_state),
                   ret=[[r.hid(h), ids_of(ids)] for h, ids in ret.items()],
                   fresh=fresh, activated=activated, cells=r.cell_truth(now), **r.drain_descs())
            return ret
        return run

    def ids_of(x):
        if x is None:
            return []
        return [REC.uid(i) for i in x]
    wrap(TagActivator, "get_event_handlers_to_run", mk_run)
    wrap(TagActivator, "_get_event_handlers_to_run_update", mk_run)

    def mk_trash(orig):
        def get_trashable_events(self, *a, **k):
            ret = orig(self, *a, **k)
            preceding_event_handler = a[0] if a else k.get("preceding_event_handler")
            REC.emit("trash", prev=REC.hid(preceding_event_handler), hids=[REC.hid(h) for h in ret])
            return ret
        return get_trashable_events
    wrap(TagActivator, "get_trashable_events", mk_trash)

    # ---- scheduler
    for sched in (HeapScheduler, ListScheduler):
        def mk_push(orig):
            def push_event(self, *a, **k):
                orig(self, *a, **k)
                time = a[0] if a else k.get("time")
                event_handler = a[1] if len(a) > 1 else k.get("event_handler")
                REC.hid_time[REC.hid(event_handler)] = time
                REC.emit("push", hid=REC.hid(event_handler), t=tkey(time))
            return push_event

        def mk_get(orig):
            def get_succeeding_event(self, *a, **k):
                try:
                    ret = orig(self, *a, **k)
                except Exception as e:
                    REC.emit("next", hid=0, err=type(e).__name__, t=[list(NAN), list(NAN)])
                    raise
                lr = getattr(self, "_last_returned_event", None)
                REC.emit("next", hid=REC.hid(ret), err="none", t=tkey(lr[0]) if lr else [list(NAN), list(NAN)])
                if REC.max_legs is not None and REC.legs >= REC.max_legs:
                    REC.stop_reason = "max_legs"
                    raise EndOfRun      # the repository's own way to end a run; run.main() then calls post_run()
                return ret
            return get_succeeding_event

        def mk_strash(orig):
            def trash_event(self, *a, **k):
                event_handler = a[0] if a else k.get("event_handler")
                try:
                    orig(self, *a, **k)
                except Exception as e:
                    REC.emit("strash", hid=REC.hid(event_handler), err=type(e).__name__)
                    raise
                REC.emit("strash", hid=REC.hid(event_handler), err="none")
            return trash_event
        wrap(sched, "push_event", mk_push)
        wrap(sched, "get_succeeding_event", mk_get)
        wrap(sched, "trash_event", mk_strash)

    # ---- state handler: outermost insert = commit
    def mk_insert(orig):
        def insert_into_global_state(self, *a, **k):
            r = REC
            extracted_global_state = a[0] if a else k.get("extracted_global_state")
            if r.depth_insert > 0 or r.mediator is None:
                return orig(self, *a, **k)
            r.depth_insert += 1
            try:
                before_nodes = {tuple(n.value.identifier): n.value for n in r.walk(self.extract_global_state())}
                before_vals = {i: (list(u.position), None if u.velocity is None else list(u.velocity), u.time_stamp
                                   and (u.time_stamp.quotient, u.time_stamp.remainder)) for i, u in before_nodes.items()}
                before = r.full_state()
                orig(self, *a, **k)
                after = r.full_state()
                written = r.states(extracted_global_state)
                res = r.residuals(before_vals, extracted_global_state)
                r.emit("commit", before=before, after=after, units=written, res=res, c12=r.c12_residuals(),
                       c08=r.same_trajectory(before_vals), **r.drain_descs())
            finally:
                r.depth_insert -= 1
        return insert_into_global_state
    wrap(TreeStateHandler, "insert_into_global_state", mk_insert)

    # ---- event handlers
    def mk_time(orig):
        def send_event_time(self, *args, **kw):
            r = REC
            hid = r.hid(self)
            instate = r.states(args[0]) if args and args[0] is not None else []
            pre_ts = {}
            if args and args[0] is not None:
                for n in r.walk(args[0]):
                    if n.value.time_stamp is not None:
                        pre_ts[tuple(n.value.identifier)] = (n.value.time_stamp.quotient, n.value.time_stamp.remainder)
            r.pre_ts = pre_ts
            if hid and args and args[0] is not None:
                # the in-state as it was when this candidate was computed (C08: still the trajectory at commit time?)
                r.hid_instate[hid] = {tuple(n.value.identifier): (list(n.value.position),
                                                                  None if n.value.velocity is None else list(n.value.velocity),
                                                                  n.value.time_stamp and (n.value.time_stamp.quotient,
                                                                                          n.value.time_stamp.remainder))
                                      for n in r.walk(args[0])}
            outer, r.ctx = r.ctx, []
            outer_stream, r.cur_stream = r.cur_stream, r.stream_of(hid)
            try:
                ret = orig(self, *args, **kw)
            finally:
                events, r.ctx = r.ctx, outer
                r.cur_stream = outer_stream
            r.worker_delay(hid, 0)
            if hid:
                t = ret[0] if isinstance(ret, tuple) else ret
                r.hid_time[hid] = t
                rec = dict(hid=hid, t=tkey(t), instate=instate, sub=time_sub(self, hid, ret, events, t))
                r.emit("time", **rec, **r.drain_descs())
            return ret
        return send_event_time

    def mk_out(orig):
        def send_out_state(self, *args, **kw):
            r = REC
            hid = r.hid(self)
            outer, r.ctx = r.ctx, []
            argstates = [r.states(a if isinstance(a, (list, tuple)) else [a]) for a in args]
            outer_stream, r.cur_stream = r.cur_stream, r.stream_of(hid)
            outer_handler, r.cur_handler = r.cur_handler, self
            try:
                ret = orig(self, *args, **kw)
            finally:
                events, r.ctx = r.ctx, outer
                r.cur_stream = outer_stream
                r.cur_handler = outer_handler
            r.worker_delay(hid, 1)
            if hid:
                r.emit("out", hid=hid, args=argstates, out=r.states(ret), sub=out_sub(self, events), **r.drain_descs())
            return ret
        return send_out_state

    seen = set()
    stack = [EventHandler]
    while stack:
        cls = stack.pop()
        if cls in seen:
            continue
        seen.add(cls)
        stack.extend(cls.__subclasses__())
        if not cls.__module__.startswith("jellyfysh."):
            continue
        if "send_event_time" in cls.__dict__ and not getattr(cls.__dict__["send_event_time"], "__isabstractmethod__", False):
            wrap(cls, "send_event_time", mk_time)
        for name in list(cls.__dict__):
            if name == "send_out_state" or name.startswith("_send_out_state_"):
                if not getattr(cls.__dict__[name], "__isabstractmethod__", False):
                    wrap(cls, name, mk_out)

    # ---- output
    def mk_write(orig):
        def write(self, output_handler, *args, **kw):
            r = REC
            kind = "other"
            state = []
            h = r.mediator._event_handler_with_shortest_event_time if r.mediator is not None else None
            hid = r.hid(h) if h is not None else 0
            if args and isinstance(args[0], (list, tuple)):
                state = [r.ustate(n.value) for n in r.walk(args[0])]
                kind = "state"
            elif args and args[0] is r.mediator:
                kind = "dump"
            ret = orig(self, output_handler, *args, **kw)
            dump = 0
            if kind == "dump":
                dump = r.save_dump_copy(self._output_handlers_dictionary[output_handler])
            j, wres = 0, 0
            if kind == "state" and h is not None and type(h).__name__ == "FixedIntervalSamplingEventHandler" and hid in r.sample_first:
                j = r.sample_writes[hid] = r.sample_writes.get(hid, 0) + 1
                delta = Fraction(h._sampling_interval)
                base = Fraction(0) if r.sample_first[hid] < delta / 2 else delta
                t = r.hid_time.get(hid)
                if t is not None:
                    diff = abs(Fraction(t.quotient) + Fraction(t.remainder) - (base + (j - 1) * delta))
                    wres = min(10 ** 9, int(math.ceil(diff * 2 ** 53)))
            r.emit("write", handler=output_handler, kind=kind, hid=hid, state=state, dump=dump, j=j, wres=wres, **r.drain_descs())
            return ret
        return write
    wrap(InputOutputHandler, "write", mk_write)

    # ---- random draws, thinning, lifting, walker (sub-records collected in the context of the running handler call)
    rnd = random._inst if hasattr(random, "_inst") else None
    real = dict(uniform=random.uniform, expovariate=random.expovariate, choice=random.choice, randint=random.randint)

    def log(kind, *payload):
        if REC is not None and REC.ctx is not None:
            REC.ctx.append((kind,) + payload)

    def rng(name):
        s = REC.cur_stream if REC is not None else None
        return getattr(s, name) if s is not None else real[name]

    def uniform(a, b):
        x = rng("uniform")(a, b)
        log("uniform", a, b, x)
        return x

    def expovariate(lambd):
        x = rng("expovariate")(lambd)
        log("expo", lambd, x)
        return x

    def choice(seq):
        x = rng("choice")(seq)
        log("choice", len(seq), x)
        return x

    def randint(a, b):
        x = rng("randint")(a, b)
        log("randint", a, b, x)
        return x
    random.uniform, random.expovariate, random.choice, random.randint = uniform, expovariate, choice, randint
    for name, mod in list(sys.modules.items()):
        if name.startswith("jellyfysh.") and mod is not None:
            if getattr(mod, "randint", None) is real["randint"]:
                mod.randint = randint
            if hasattr(mod, "bounding_potential_warning") and not getattr(mod.bounding_potential_warning, "_verif_wrapped", False):
                orig_w = mod.bounding_potential_warning

                def warn(event_handler_name, bounding_event_rate, real_event_rate, _orig=orig_w):
                    log("warn", bounding_event_rate, real_event_rate)
                    return _orig(event_handler_name, bounding_event_rate, real_event_rate)
                warn._verif_wrapped = True
                mod.bounding_potential_warning = warn

    def mk_insert_l(orig):
        def insert(self, *a, **k):
            lifting_rate = a[0] if a else k.get("lifting_rate")
            associated_identifier = a[1] if len(a) > 1 else k.get("associated_identifier")
            is_active = a[2] if len(a) > 2 else k.get("is_active")
            log("linsert", lifting_rate, tuple(associated_identifier), bool(is_active))
            return orig(self, *a, **k)
        return insert
    wrap(Lifting, "insert", mk_insert_l)

    def mk_reset_l(orig):
        def reset(self, *a, **k):
            log("lreset")
            return orig(self, *a, **k)
        return reset
    wrap(Lifting, "reset", mk_reset_l)
    for cls in Lifting.__subclasses__():
        if "get_active_identifier" in cls.__dict__:
            def mk_get_l(orig, cname=cls.__name__):
                def get_active_identifier(self, *a, **k):
                    ret = orig(self, *a, **k)
                    log("lget", cname, tuple(ret))
                    return ret
                return get_active_identifier
            wrap(cls, "get_active_identifier", mk_get_l)

    def mk_sample(orig):
        def sample_cell(self, *a, **k):
            ret = orig(self, *a, **k)
            log("walker", id(self), ret)
            return ret
        return sample_cell
    wrap(Walker, "sample_cell", mk_sample)

    try:
        from jellyfysh.potential.inverse_power_coulomb_bounding_potential.inverse_power_coulomb_bounding_potential import \
            InversePowerCoulombBoundingPotential as IPCB

        def mk_bder(orig):
            def derivative(self, *a, **k):
                ret = orig(self, *a, **k)
                # is the state of the handler that asks already at its event time?  (C04: the confirmation compares rates at the
                # configuration of the event, not at the configuration of the last time stamps)
                sliced = 1
                h = REC.cur_handler
                if h is not None:
                    try:
                        et = h._event_time
                        for n in REC.walk(h._state):
                            u = n.value
                            if u.velocity is not None and u.time_stamp is not None and et is not None and not (
                                    u.time_stamp.quotient == et.quotient and u.time_stamp.remainder == et.remainder):
                                sliced = 0
                    except (AttributeError, TypeError):
                        sliced = 1
                log("bder", ret, sliced)
                return ret
            return derivative
        wrap(IPCB, "derivative", mk_bder)
    except Exception:
        pass

    # ------------------------------------------------------------------ sub-records
    def out_sub(handler, events):
        sub = dict(k=0, thin=[], lift=[])
        pair_bounds = [e[1] for e in events if e[0] == "bder"]
        i = 0
        while i < len(events):
            e = events[i]
            if e[0] == "warn":
                qb, q = e[1], e[2]
                u = None
                for f in events[i + 1:]:
                    if f[0] == "uniform" and f[2] == qb:
                        u = f[3]
                        break
                    if f[0] in ("warn",):
                        break
                ref = 0.0
                for d in pair_bounds:
                    ref += max(0.0, d)
                sub["thin"].append(dict(sliced=min([e2[2] for e2 in events if e2[0] == "bder" and len(e2) > 2] or [1]),
                                        qb=fkey(qb), q=fkey(q), drawn=int(u is not None), u=fkey(u) if u is not None else list(NAN),
                                        npairs=len(pair_bounds), qbref=fkey(ref) if len(pair_bounds) > 1 else fkey(qb),
                                        qbs=repr(qb), qs=repr(q)))
            i += 1
        table = None
        for e in events:
            if e[0] == "lreset":
                table = []
            elif e[0] == "linsert" and table is not None:
                table.append([REC.uid(e[2]), fkey(e[1]), int(e[3])])
            elif e[0] == "lget" and table is not None:
                sub["lift"].append(dict(scheme=e[1], table=table, chosen=REC.uid(e[2])))
                table = None
        return sub

    def time_sub(handler, hid, ret, events, t):
        from jellyfysh.event_handler.abstracts.cell_veto_event_handler import CellVetoEventHandler
        from jellyfysh.event_handler.fixed_interval_sampling_event_handler import FixedIntervalSamplingEventHandler
        sub = {"k": 0}
        if isinstance(handler, FixedIntervalSamplingEventHandler):
            k = REC.sample_calls[hid] = REC.sample_calls.get(hid, 0) + 1
            first = REC.sample_first.setdefault(hid, Fraction(t.quotient) + Fraction(t.remainder))
            delta = Fraction(handler._sampling_interval)
            # first sampling time is either interval or 0 (first_event_time_zero); k-th nominal time follows from it
            base = Fraction(0) if first < delta / 2 else delta
            nominal = base + (k - 1) * delta
            diff = abs(Fraction(t.quotient) + Fraction(t.remainder) - nominal)
            sub["k"] = k
            sub["sres"] = min(10 ** 9, int(math.ceil(diff * 2 ** 53)))
        if isinstance(handler, CellVetoEventHandler) and hid in REC.hid_cellsys:
            cs = REC.cellsys[REC.hid_cellsys[hid] - 1]
            st = cs["obj"]
            idx = cs["index"]
            act = list(st.yield_active_cells())
            w = [e for e in events if e[0] == "walker"]
            ex = [e for e in events if e[0] == "expo"]
            if w and act:
                rel = w[-1][2]
                wid = w[-1][1]
                direction = [i for i, c in enumerate(handler._active_leaf_unit.velocity) if c != 0.0]
                direction = direction[0] if direction else 0
                which = ("upper" if wid == id(handler._upper_bound_walker[direction])
                         else "lower" if wid == id(handler._lower_bound_walker[direction]) else "other")
                cf = handler._estimator.charge_correction_factor(handler._charge_of_unit(handler._active_leaf_unit))
                bi = 0 if cf > 0.0 else 1
                ref = handler._derivative_bounds[rel][direction][bi] * abs(cf)
                target = ret[1][0]
                walker = handler._upper_bound_walker[direction] if cf > 0.0 else handler._lower_bound_walker[direction]
                total = walker.total_rate * abs(cf)
                speed = handler._active_leaf_unit.velocity[direction]
                prop = None
                if ex:
                    # time displacement = draw / (total * speed): residual of (t - time stamp before slicing) is not
                    # observable after slicing; log the identity on the returned time instead
                    prop = ex[-1][2] / (total * speed)
                propres = 0
                ident = tuple(handler._active_leaf_unit.identifier)
                if ex and ident in REC.pre_ts:
                    q0, r0 = REC.pre_ts[ident]
                    dt = (Fraction(t.quotient) - Fraction(q0)) + (Fraction(t.remainder) - Fraction(r0))
                    want = Fraction(ex[-1][2]) / (Fraction(total) * Fraction(speed))
                    if want > 0:
                        # one rounding of the remainder sum (absolute 2^-52) plus the rounding of the quotient draw/(rate*speed)
                        tol = Fraction(1, 2 ** 52) + want / 2 ** 48
                        propres = min(10 ** 9, int(math.ceil(abs(dt - want) / tol)))
                # the walker's total against the sum of the stored (clipped) bounds of all offsets for this direction / sign
                sumref = math.fsum(max(b[direction][bi], 0.0) for b in handler._derivative_bounds.values())
                totok = int(abs(walker.total_rate - sumref) <= 1e-9 * max(sumref, 1e-300))
                sub["cellveto"] = dict(sys=REC.hid_cellsys[hid], activeCell=idx[act[0][0]], rel=idx[rel], target=idx[target],
                                       propres=propres, totok=totok,
                                       walker=which, signpos=int(cf > 0.0), direction=direction,
                                       rate=fkey(handler._bounding_event_rate), rateref=fkey(ref),
                                       positive=int(handler._bounding_event_rate > 0.0))
        return sub


# ----------------------------------------------------------------------------------------------------------------------
def _residuals(self, before_vals, out_nodes):
    """Measured residuals of one commit (exact rational arithmetic; integers in the stated units)."""
    import jellyfysh.setting as setting
    res = []
    Ls = [Fraction(x) for x in self.L]
    for n in self.walk(out_nodes):
        u = n.value
        ident = tuple(u.identifier)
        pos0, vel0, ts0 = before_vals[ident]
        adv = -1
        if vel0 is not None:
            # event time: the unit's new time stamp if it still moves, else the committed handler's candidate time
            if u.time_stamp is not None:
                t1 = Fraction(u.time_stamp.quotient) + Fraction(u.time_stamp.remainder)
            else:
                h = self.mediator._event_handler_with_shortest_event_time
                t = self.hid_time.get(self.hid(h))
                t1 = Fraction(t.quotient) + Fraction(t.remainder) if t is not None else None
            if t1 is not None:
                dt = t1 - (Fraction(ts0[0]) + Fraction(ts0[1]))
                worst = Fraction(0)
                for d in range(len(pos0)):
                    want = Fraction(pos0[d]) + Fraction(vel0[d]) * dt
                    diff = (Fraction(u.position[d]) - want) % Ls[d]
                    diff = min(diff, Ls[d] - diff)
                    worst = max(worst, diff / Ls[d])
                adv = min(10 ** 9, int(math.ceil(worst * 2 ** 30)))
        res.append([self.uid(ident), adv])
    return res


Recorder.residuals = _residuals


def _same_trajectory(self, before_vals):
    """C08, measured: for every unit of the in-state from which the committing handler computed its candidate, is the unit in
    the global state (just before the commit) still on that trajectory?  [uid, velocity equal, distance from the line in units
    of 2^-30 L (-1: resting unit, position must be equal: 0 / 10^9)]"""
    h = getattr(self.mediator, "_event_handler_with_shortest_event_time", None)
    then = self.hid_instate.get(self.hid(h)) if h is not None else None
    if not then:
        return []
    out = []
    Ls = [Fraction(x) for x in self.L]
    for ident, (p0, v0, t0) in then.items():
        if ident not in before_vals:
            continue
        p1, v1, t1 = before_vals[ident]
        veq = int(v0 == v1)
        if v0 is None or v1 is None or t0 is None or t1 is None:
            dist = 0 if p0 == p1 else 10 ** 9
        else:
            dt = (Fraction(t1[0]) + Fraction(t1[1])) - (Fraction(t0[0]) + Fraction(t0[1]))
            worst = Fraction(0)
            for d in range(len(p0)):
                diff = (Fraction(p1[d]) - Fraction(p0[d]) - Fraction(v0[d]) * dt) % Ls[d]
                worst = max(worst, min(diff, Ls[d] - diff) / Ls[d])
            dist = min(10 ** 9, int(math.ceil(worst * 2 ** 30)))
        out.append([self.uid(ident), veq, dist])
    return out


Recorder.same_trajectory = _same_trajectory


def _c12(self):
    """Per composite object: measured residuals of root velocity (units of 1e-12 speed) and barycentre (2^-30 L)."""
    h = self.mediator._event_handler_with_shortest_event_time
    t = self.hid_time.get(self.hid(h))
    if t is None:
        return []
    now = Fraction(t.quotient) + Fraction(t.remainder)
    Ls = [Fraction(x) for x in self.L]
    out = []
    for root in self.mediator._state_handler.extract_global_state():
        if not root.children:
            continue
        dim = len(root.value.position)

        def advanced(u):
            p = [Fraction(x) for x in u.position]
            if u.velocity is not None:
                dt = now - (Fraction(u.time_stamp.quotient) + Fraction(u.time_stamp.remainder))
                p = [a + Fraction(v) * dt for a, v in zip(p, u.velocity)]
            return p
        rp = advanced(root.value)
        rv = [Fraction(x) for x in root.value.velocity] if root.value.velocity is not None else [Fraction(0)] * dim
        sumv = [Fraction(0)] * dim
        # barycentre of the point masses with nearest images taken among the point masses themselves (relative to the first
        # one: a molecule is much smaller than half the box), then the nearest image of (root - barycentre).  Taking nearest
        # images relative to the root instead would not see a root displaced by exactly half a box length.
        ref = advanced(root.children[0].value)
        bary = list(ref)
        for leaf in root.children:
            w = Fraction(leaf.weight)
            if leaf.value.velocity is not None:
                sumv = [a + w * Fraction(v) for a, v in zip(sumv, leaf.value.velocity)]
            lp = advanced(leaf.value)
            for d in range(dim):
                sep = (lp[d] - ref[d] + Ls[d] / 2) % Ls[d] - Ls[d] / 2
                bary[d] += w * sep
        off = [(rp[d] - bary[d] + Ls[d] / 2) % Ls[d] - Ls[d] / 2 for d in range(dim)]
        speed = self.speed or Fraction(1)
        rvres = max(abs(a - b) for a, b in zip(rv, sumv)) / speed
        bres = max(abs(off[d]) / Ls[d] for d in range(dim))
        out.append([self.uid(root.value.identifier), min(10 ** 9, int(math.ceil(rvres * 10 ** 12))),
                    min(10 ** 9, int(math.ceil(bres * 2 ** 30)))])
    return out


Recorder.c12_residuals = _c12
