"""MANIFEST.setup_cmd: nothing to build ahead of time (every check rebuilds from /repo's working tree); verify tools."""
import shutil
import subprocess
import sys


def main():
    ok = True
    for tool in ("java", "clang", "gcc"):
        if not shutil.which(tool):
            print("missing tool:", tool)
            ok = False
    for path in ("/opt/veriftools/tla/tla2tools.jar", "/venv/bin/python"):
        import os
        if not os.path.exists(path):
            print("missing:", path)
            ok = False
    sys.exit(0 if ok else 1)


if __name__ == "__main__":
    main()
