"""C16 driver (scratch copy).  table <table.json> | trace <seed> <n> <out.ndjson>"""
import json
import math
import random
import sys

from harness.build import assert_scratch_import
from harness.f64 import fkey, pred, succ

assert_scratch_import()
import jellyfysh.setting as setting  # noqa: E402
from jellyfysh.setting.hypercuboid_setting import HypercuboidSetting  # noqa: E402
from jellyfysh.setting.hypercubic_setting import HypercubicSetting  # noqa: E402
from jellyfysh.activator.internal_state.cell_occupancy.cells.cuboid_cells import CuboidCells  # noqa: E402
from jellyfysh.activator.internal_state.cell_occupancy.cells.cuboid_periodic_cells import CuboidPeriodicCells  # noqa: E402


def boxed(lengths, cubic=False):
    setting.reset()
    if cubic:
        HypercubicSetting(beta=1.0, dimension=len(lengths), system_length=lengths[0])
    else:
        HypercuboidSetting(beta=1.0, dimension=len(lengths), system_lengths=list(lengths))
    setting.set_number_of_root_nodes(2)
    setting.set_number_of_nodes_per_root_node(1)
    setting.set_number_of_node_levels(1)


def table(path):
    tab = json.load(open(path))
    fails, n = [], 0
    for gt in tab["grids"]:
        g = gt["g"]
        ids = {i: tuple(c) for i, c in gt["ids"]}
        for shape in ("cubic", "cuboid"):
            lengths = [1.0] * len(g) if shape == "cubic" else [1.0, 2.0, 3.5][:len(g)]
            boxed(lengths, cubic=(shape == "cubic"))
            for nl in (0, 1, 2):
                try:
                    pc = CuboidPeriodicCells(cells_per_side=list(g), neighbor_layers=nl)
                    cc = CuboidCells(cells_per_side=list(g), neighbor_layers=nl)
                except Exception as e:
                    fails.append(dict(what="constructor raised", g=g, nl=nl, err=repr(e)))
                    continue
                pcs, ccs = list(pc.yield_cells()), list(cc.yield_cells())
                idx = {c: i for i, c in enumerate(pcs)}
                cidx = {c: i for i, c in enumerate(ccs)}
                for i, c in enumerate(pcs):
                    n += 1
                    if tuple(c.identifier) != ids[i] or tuple(ccs[i].identifier) != ids[i]:
                        fails.append(dict(what="cell order/identifier", g=g, i=i, got=c.identifier, want=ids[i]))
                for row in gt["near"]:
                    if row[0] != nl:
                        continue
                    n += 2
                    got = sorted(idx[x] for x in pc.nearby_cells(pcs[row[1]]))
                    if got != sorted(row[2]):
                        fails.append(dict(what="CuboidPeriodicCells.nearby_cells", g=g, nl=nl, cell=row[1], got=got,
                                          want=sorted(row[2]), shape=shape))
                    got = sorted(cidx[x] for x in cc.nearby_cells(ccs[row[1]]))
                    if got != sorted(row[3]):
                        fails.append(dict(what="CuboidCells.nearby_cells", g=g, nl=nl, cell=row[1], got=got,
                                          want=sorted(row[3]), shape=shape))
                if nl != 1:
                    continue
                for c, r, rel, tr in gt["rel"]:
                    n += 2
                    got = idx[pc.relative_cell(pcs[c], pcs[r])]
                    if got != rel:
                        fails.append(dict(what="relative_cell", g=g, args=[c, r], got=got, want=rel, shape=shape))
                    got = idx[pc.translate(pcs[c], pcs[r])]
                    if got != tr:
                        fails.append(dict(what="translate", g=g, args=[c, r], got=got, want=tr, shape=shape))
                for c, d, up, pn, nn in gt["nb"]:
                    n += 2
                    got = idx[pc.neighbor_cell(pcs[c], d - 1, bool(up))]
                    if got != pn:
                        fails.append(dict(what="CuboidPeriodicCells.neighbor_cell", g=g, args=[c, d, up], got=got, want=pn))
                    res = cc.neighbor_cell(ccs[c], d - 1, bool(up))
                    got = -1 if res is None else cidx[res]
                    if got != nn:
                        fails.append(dict(what="CuboidCells.neighbor_cell", g=g, args=[c, d, up], got=got, want=nn))
                if pc.zero_cell is not pcs[0]:
                    fails.append(dict(what="zero_cell", g=g))
            if len(fails) > 20:
                break
    setting.reset()
    json.dump(dict(evaluations=n, fails=fails[:20]), sys.stdout)


def trace(seed, n, path):
    rnd = random.Random(seed)
    out = open(path, "w")
    combos = [(1.0, k) for k in (1, 2, 3, 5, 6, 7, 9, 11, 12, 13)] + [(10.0, 6), (10.0, 9), (12.836, 13), (12.836, 5),
                                                                      (3.0, 9), (7.3, 7), (0.1, 3), (2.5, 4)]
    combos += [(rnd.choice([1.0, 10.0, 12.836, 3.0, 7.3, 0.7, 123.456, rnd.uniform(0.5, 50)]), rnd.randint(1, 14))
               for _ in range(n)]
    for which, (L, k) in enumerate(combos):
        # the probed direction is the second one of a 2-D box whose first direction has 2 cells
        boxed([2.0, L])
        cls = CuboidPeriodicCells if which % 2 == 0 else CuboidCells
        x0 = 1.5
        if which % 5 == 4 and k >= 2:
            x0 = 1.5 * 1.75 / k
            # fewer cell counts than dimensions: the one count is used for every direction (as hard_disk_dipoles_cells.ini does)
            boxed([1.75, L])
            cells = cls(cells_per_side=[k], neighbor_layers=1)
            col0 = [c for c in cells.yield_cells() if c.identifier[0] == 1]
            if [c.identifier[1] for c in col0] != list(range(k)):
                raise AssertionError("one cell count for two directions does not give %d cells along the second one" % k)
        else:
            cells = cls(cells_per_side=[2, k], neighbor_layers=1)
        cl = list(cells.yield_cells())
        col = [c for c in cl if c.identifier[0] == 1]
        assert [c.identifier[1] for c in col] == list(range(k))
        out.write(json.dumps(dict(op="grid", L=fkey(L), n=k, mins=[fkey(c.cell_min[1]) for c in col],
                                  maxs=[fkey(c.cell_max[1]) for c in col], Ls=repr(L), cls=cls.__name__)) + "\n")
        probes = [0.0, pred(L), succ(0.0), L / 2, pred(L / 2), succ(L / 2)]
        for c in col:
            for v in (c.cell_min[1], c.cell_max[1]):
                probes += [v, pred(v), succ(v)]
            probes.append((c.cell_min[1] + c.cell_max[1]) / 2)
        probes += [rnd.uniform(0.0, L) for _ in range(10)]
        # the positions are looked up through ONE list object that is updated in place (as the event handlers move a unit's
        # position list), first in ascending order and then in a shuffled one: the map must not depend on earlier look-ups
        xs = sorted(set(p for p in probes if 0.0 <= p < L))
        walk = xs + rnd.sample(xs, len(xs))
        position = [x0, 0.0]
        for x in walk:
            try:
                position[1] = x
                got = cells.position_to_cell(position)
                ci = got.identifier[1] if got.identifier[0] == 1 else -1
            except Exception:
                ci = -1
            out.write(json.dumps(dict(op="probe", x=fkey(x), cell=ci, xs=repr(x), Ls=repr(L), n=k)) + "\n")
    setting.reset()
    out.close()


if __name__ == "__main__":
    if sys.argv[1] == "table":
        table(sys.argv[2])
    else:
        trace(int(sys.argv[2]), int(sys.argv[3]), sys.argv[4])
