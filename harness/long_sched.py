"""One very long scheduler history on the real HeapScheduler (scratch copy), windows of it written for TraceSched.tla.

usage: long_sched.py <seed> <total trashes> <out.ndjson>
The history follows the mediator protocol: handlers without a live event push a candidate, the succeeding event is requested,
the returned handler and a few others are trashed; a trashed handler stays idle for a while (it pushes again in a later leg
with probability 0.6 per leg), as pooled event handlers do.  Times live on the lattice (q, r/8).
Windows of 2 500 calls start whenever the number of trashes crosses a power of two (2^12 ... ) and at the end; a shadow copy of
the live events (a dict) is only used to choose one more window around the first call whose answer looks wrong -- the verdict
on every window is TLC's."""
import json
import random
import sys

from harness.build import assert_scratch_import

assert_scratch_import()
from jellyfysh.base.exceptions import SchedulerError  # noqa: E402
from jellyfysh.base.time import Time  # noqa: E402
from jellyfysh.scheduler.heap_scheduler import HeapScheduler  # noqa: E402
from jellyfysh.scheduler.list_scheduler import ListScheduler  # noqa: E402
from harness.stubs import Handler  # noqa: E402

NH = 40
WINDOW = 2500


def main():
    seed, total, path = int(sys.argv[1]), int(sys.argv[2]), sys.argv[3]
    rnd = random.Random(seed)
    heap = HeapScheduler()
    hs = {i: Handler(i) for i in range(1, NH + 1)}
    live = {}
    now = (0, 0)
    last = (-1000000, -1000000)
    trashes = 0
    next_mark = 2 ** 12
    out = open(path, "w")
    win = None                 # [remaining calls, ListScheduler]
    windows = 0
    recent, snap = [], None    # calls since the last snapshot (for a window around a suspicious answer)
    suspicious = False

    def emit(rec):
        out.write(json.dumps(rec) + "\n")

    def init_record():
        return dict(op="init", live=[[h, t[0], t[1]] for h, t in sorted(live.items())], last=list(last))

    def start_window():
        nonlocal win, windows
        lst = ListScheduler()
        for h, t in live.items():
            lst.push_event(Time(float(t[0]), t[1] / 8.0), hs[h])
        emit(init_record())
        win = [WINDOW, lst]
        windows += 1

    def call(rec, lst_action=None):
        nonlocal win
        if win is not None:
            if lst_action is not None:
                lst_action(win[1], rec)
            emit(rec)
            win[0] -= 1
            if win[0] <= 0:
                win = None
        recent.append(rec)

    def lst_push(lst, rec):
        lst.push_event(Time(float(rec["q"]), rec["r"] / 8.0), hs[rec["h"]])

    def lst_trash(lst, rec):
        lst.trash_event(hs[rec["h"]])

    def lst_get(lst, rec):
        try:
            g = lst.get_succeeding_event()
            t = live.get(g.ident)
            rec["lt"] = list(t) if t is not None else [-2000000, -2000000]
        except SchedulerError:
            rec["lt"] = [-2000000, -2000000]

    legs = 0
    while trashes < total:
        legs += 1
        if len(recent) > 1000 and win is None:
            recent, snap = [], init_record()
        if win is None and trashes >= next_mark:
            start_window()
            next_mark *= 2
        for h in range(1, NH + 1):
            if h not in live and rnd.random() < 0.6:
                d = rnd.randint(1, 64)
                t = (now[0] + (now[1] + d) // 8, (now[1] + d) % 8)
                heap.push_event(Time(float(t[0]), t[1] / 8.0), hs[h])
                live[h] = t
                call(dict(op="push", h=h, q=t[0], r=t[1]), lst_push)
        rec = dict(op="get", err="none", ret=0)
        try:
            got = heap.get_succeeding_event()
            rec["ret"] = got.ident
        except SchedulerError as e:
            rec["err"] = "empty" if "does not contain any events" in str(e) else "decreasing"
        call(rec, lst_get)
        ok = rec["err"] == "none" and rec["ret"] in live and live[rec["ret"]] == min(live.values())
        if not ok and not suspicious and win is None and snap is not None:
            # not inside a window: cut one out of the calls since the last snapshot, ending a little after this call
            suspicious = True
            emit(snap)
            for r in recent:
                emit(r)
            windows += 1
        if rec["err"] != "none" or rec["ret"] not in live:
            break                                   # the history cannot be continued meaningfully
        now = live[rec["ret"]]
        last = now
        victims = [rec["ret"]] + rnd.sample([h for h in live if h != rec["ret"]], min(len(live) - 1, rnd.choice((0, 1, 2, 3, 8))))
        for h in victims:
            heap.trash_event(hs[h])
            del live[h]
            trashes += 1
            call(dict(op="trash", h=h), lst_trash)
    if win is None:
        start_window()
        for _ in range(200):                         # a last short window: drain a few legs
            rec = dict(op="get", err="none", ret=0)
            try:
                got = heap.get_succeeding_event()
                rec["ret"] = got.ident
            except SchedulerError as e:
                rec["err"] = "empty" if "does not contain any events" in str(e) else "decreasing"
            call(rec, lst_get)
            if rec["err"] != "none" or rec["ret"] not in live:
                break
            last = live[rec["ret"]]
            heap.trash_event(hs[rec["ret"]])
            del live[rec["ret"]]
            trashes += 1
            call(dict(op="trash", h=rec["ret"]), lst_trash)
    out.close()
    json.dump(dict(legs=legs, trashes=trashes, windows=windows, suspicious=suspicious), sys.stdout)


if __name__ == "__main__":
    main()
