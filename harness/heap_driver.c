/* Replay driver for scheduler/heap_scheduler/heap.c built with -fsanitize=address,undefined.
 * Re-implements only the (trivial) Python side of HeapScheduler: per-handler valid counter, the overflow branch of
 * push_event (counter > UINT_MAX -> delete_events, reset, insert with 0) and __getstate__/__setstate__ (K).
 * ops:  S h v | P h q r8 | T h | G | K | A | N
 */
#include <stdio.h>
#include <stdlib.h>
#include <stdint.h>
#include <limits.h>
#include "heap.h"

#define MAXH 4096
static unsigned long long mv[MAXH];

static int cb(void *sched, void *handler, uint counter) {
    (void) sched;
    return mv[(uintptr_t) handler] > (unsigned long long) counter;
}

int main(int argc, char **argv) {
    FILE *f = fopen(argv[1], "r");
    if (!f) return 2;
    struct Heap *heap = construct_heap();
    char op;
    while (fscanf(f, " %c", &op) == 1) {
        if (op == 'S') {
            unsigned h; unsigned long long v;
            if (fscanf(f, "%u %llu", &h, &v) != 2) return 2;
            mv[h] = v;
        } else if (op == 'P') {
            unsigned h; long q, r;
            if (fscanf(f, "%u %ld %ld", &h, &q, &r) != 3) return 2;
            if (mv[h] > UINT_MAX) {
                delete_events(heap, (void *) (uintptr_t) h);
                mv[h] = 0;
            }
            insert(heap, (double) q, r / 8.0, (void *) (uintptr_t) h, (uint) mv[h]);
        } else if (op == 'T') {
            unsigned h;
            if (fscanf(f, "%u", &h) != 1) return 2;
            mv[h]++;
        } else if (op == 'G') {
            struct HeapEntry e = root(heap, NULL, cb);
            if (e.event_handler == NULL) printf("G 0\n");
            else printf("G %u %ld %ld %u\n", (unsigned) (uintptr_t) e.event_handler, (long) e.time_quotient,
                        (long) (e.time_remainder * 8), e.counter);
        } else if (op == 'K') {
            uint n = 0;
            while (entry(heap, n).event_handler != NULL) n++;
            struct HeapEntry *es = malloc((n + 1) * sizeof(struct HeapEntry));
            for (uint i = 0; i < n; i++) es[i] = entry(heap, i);
            destroy_heap(heap);
            heap = construct_heap();
            for (uint i = 0; i < n; i++)
                insert(heap, es[i].time_quotient, es[i].time_remainder, es[i].event_handler, es[i].counter);
            free(es);
        } else if (op == 'A') {
            for (uint i = 0; ; i++) {
                struct HeapEntry e = entry(heap, i);
                if (e.event_handler == NULL) break;
                printf("A %u %ld %ld %u\n", (unsigned) (uintptr_t) e.event_handler, (long) e.time_quotient,
                       (long) (e.time_remainder * 8), e.counter);
            }
            printf("A end\n");
        } else if (op == 'N') {
        } else return 2;
    }
    destroy_heap(heap);
    fclose(f);
    return 0;
}
