"""Replay of StateTree.tla behaviours into the real TreeStateHandler (scratch copy).

usage: replay_tree.py <behaviours.json>   with {"nroots":..,"nkids":..,"behaviours":[...]}
After every model action the global value (read through extract_global_state), every live extracted branch and the
independent active identifiers must equal the model's.
"""
import json
import sys

from harness.build import assert_scratch_import

assert_scratch_import()
import jellyfysh.setting as setting  # noqa: E402
from jellyfysh.setting.hypercubic_setting import HypercubicSetting  # noqa: E402
from jellyfysh.base.node import Node  # noqa: E402
from jellyfysh.base.unit import Unit  # noqa: E402
from jellyfysh.base.time import Time  # noqa: E402
from jellyfysh.state_handler.tree_state_handler import TreeStateHandler  # noqa: E402
from jellyfysh.state_handler.physical_state.tree_physical_state import TreePhysicalState  # noqa: E402
from jellyfysh.state_handler.lifting_state.tree_lifting_state import TreeLiftingState  # noqa: E402


def build(nroots, nkids):
    setting.reset()
    HypercubicSetting(beta=1.0, dimension=1, system_length=8.0)
    setting.set_number_of_root_nodes(nroots)
    setting.set_number_of_nodes_per_root_node(max(nkids, 1))
    setting.set_number_of_node_levels(2 if nkids else 1)
    roots = []
    for r in range(nroots):
        node = Node(Unit((r,), [0.0], {"q": 1.0}))
        for k in range(nkids):
            node.add_child(Node(Unit((r, k), [0.0], {"q": 1.0})))
        roots.append(node)
    sh = TreeStateHandler(TreePhysicalState(), TreeLiftingState())
    sh.initialize(roots)
    return sh


def walk(node):
    yield node
    for c in node.children:
        yield from walk(c)


def value(unit):
    return [unit.position[0], unit.velocity[0] if unit.velocity is not None else 0,
            unit.time_stamp.quotient if unit.time_stamp is not None else 0]


def project_nodes(nodes):
    out = {}
    for n in nodes:
        for c in walk(n):
            out[tuple(c.value.identifier)] = value(c.value)
    return out


def top(cnode):
    while cnode.parent is not None:
        cnode = cnode.parent
    return cnode


def find(branch, ident):
    for c in walk(branch):
        if tuple(c.value.identifier) == tuple(ident):
            return c.value
    raise KeyError(ident)


def replay(beh, nroots, nkids):
    sh = build(nroots, nkids)
    slots = {}
    for step, obs in enumerate(beh):
        op = obs["op"]
        name = op["name"]
        try:
            if name == "extract":
                slots[op["slot"]] = sh.extract_from_global_state(tuple(op["unit"]))
            elif name == "extract_active":
                got = sh.extract_active_global_state()
                # a branch is returned as its root cnode; identify it by the set of units it contains
                by_units = {frozenset(project_nodes([c])): c for c in got}
                want = {frozenset(tuple(u) for u, _ in b["val"]): s for s, b in enumerate(obs["branches"], start=1) if b["id"]}
                if set(by_units) != set(want) or len(got) != len(want):
                    return dict(step=step, what="extract_active_global_state returns other branches than the model's ActiveRule",
                                got=sorted(sorted(k) for k in by_units), want=sorted(sorted(k) for k in want))
                for units, s in want.items():
                    slots[s] = by_units[units]
            elif name == "mutate_pos":
                find(slots[op["slot"]], op["unit"]).position[0] = float(op["val"])
            elif name == "mutate_vel":
                find(slots[op["slot"]], op["unit"]).velocity[0] = float(op["val"])
            elif name == "mutate_ts":
                find(slots[op["slot"]], op["unit"]).time_stamp.update(Time(float(op["val"]), 0.0))
            elif name == "rebind_pos":
                find(slots[op["slot"]], op["unit"]).position = [float(op["val"])]
            elif name == "activate":
                u = find(slots[op["slot"]], op["unit"])
                u.velocity = [float(op["vel"])]
                u.time_stamp = Time(float(op["ts"]), 0.0)
            elif name == "deactivate":
                u = find(slots[op["slot"]], op["unit"])
                u.velocity = None
                u.time_stamp = None
            elif name == "hand_over":
                a, b = find(slots[op["slot"]], op["unit"]), find(slots[op["slot"]], op["to"])
                b.velocity, b.time_stamp = a.velocity, a.time_stamp
                a.velocity = a.time_stamp = None
            elif name == "share":
                a, b = find(slots[op["slot"]], op["unit"]), find(slots[op["slot"]], op["to"])
                b.velocity, b.time_stamp = a.velocity, a.time_stamp
            elif name == "insert":
                sh.insert_into_global_state([slots.pop(op["slot"])])
            elif name == "drop":
                slots.pop(op["slot"])
            elif name == "finish":
                pass
            else:
                return dict(step=step, what="unknown op " + name)
        except Exception as e:
            return dict(step=step, what="real code raised in " + name, got=repr(e))
        # ---- compare projected state
        glob = project_nodes(sh.extract_global_state())
        want = {tuple(u): v for u, v in obs["global"]}
        if glob != want:
            return dict(step=step, what="global state after %s differs from the model" % name,
                        got=sorted(glob.items()), want=sorted(want.items()))
        for s, b in enumerate(obs["branches"], start=1):
            if not b["id"]:
                if s in slots:
                    return dict(step=step, what="harness slot bookkeeping")
                continue
            got = project_nodes([slots[s]])
            wantb = {tuple(u): v for u, v in b["val"]}
            if got != wantb or tuple(slots[s].value.identifier) != (b["id"][0],):
                return dict(step=step, what="extracted branch %s after %s differs from the model (shape or values)"
                            % (b["id"], name), got=sorted(got.items()), want=sorted(wantb.items()))
        ls = sh._lifting_state
        act = sorted(tuple(i) for i in ls.yield_independent_lifted_identifiers())
        if act != sorted(tuple(x) for x in obs["active"]):
            return dict(step=step, what="independent active identifiers after %s differ from the model" % name, got=act,
                        want=obs["active"])
        real_lifted = sorted(i for lvl in ls._lifted_identifiers.values() for i in lvl)
        if real_lifted != sorted(ls._lifting_dictionary.keys()) or real_lifted != sorted(tuple(x) for x in obs["lifted"]):
            return dict(step=step, what="lifted-identifier index after %s differs from the lifting dictionary / model" % name,
                        got=real_lifted, want=obs["lifted"])
    return None


def main():
    spec = json.load(open(sys.argv[1]))
    fails, steps, kinds = [], 0, {}
    for idx, beh in enumerate(spec["behaviours"]):
        steps += len(beh)
        for o in beh:
            kinds[o["op"]["name"]] = kinds.get(o["op"]["name"], 0) + 1
        r = replay(beh, spec["nroots"], spec["nkids"])
        if r is not None:
            r["behaviour"] = idx
            fails.append(r)
            if len(fails) >= 5:
                break
    setting.reset()
    json.dump(dict(behaviours=len(spec["behaviours"]), steps=steps, kinds=kinds, fails=fails), sys.stdout)


if __name__ == "__main__":
    main()
