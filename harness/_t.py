import sys, tempfile, shutil
from harness import tlc
d=tempfile.mkdtemp(dir='/var/tmp')
kw={}
for a in sys.argv[3:]:
    k,v=a.split('=',1); kw[k]=eval(v)
r=tlc.run(sys.argv[1],sys.argv[2],d,**kw)
print(r.summary()); print(r.out[-4000:] if not r.ok else '')
if r.coverage: print(r.coverage)
shutil.rmtree(d)
