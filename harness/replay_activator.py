"""Replay of Activator.tla behaviours into the real TagActivator with scripted Tagger subclasses (scratch copy)."""
import json
import sys

from harness.build import assert_scratch_import

assert_scratch_import()
import jellyfysh.setting as setting  # noqa: E402
from jellyfysh.setting.hypercubic_setting import HypercubicSetting  # noqa: E402
from jellyfysh.activator.tag_activator import TagActivator  # noqa: E402
from jellyfysh.activator.tagger.tagger import Tagger  # noqa: E402
from jellyfysh.base.exceptions import TagActivatorError  # noqa: E402
from jellyfysh.event_handler.event_handler import EventHandler  # noqa: E402
from jellyfysh.event_handler.abstracts.start_of_run_event_handler import StartOfRunEventHandler  # noqa: E402

SCRIPT = {}


class Stub(EventHandler):
    def send_event_time(self):
        return None

    def send_out_state(self):
        return None


class StubStart(StartOfRunEventHandler):
    def send_event_time(self):
        return None

    def send_out_state(self):
        return None


class ScriptTagger(Tagger):
    def yield_identifiers_send_event_time(self, extracted_active_global_state):
        for k in range(SCRIPT.get(self.tag, 0)):
            yield ((k,),)


def build(cfg):
    setting.reset()
    HypercubicSetting(beta=1.0, dimension=1, system_length=1.0)
    setting.set_number_of_root_nodes(2)
    setting.set_number_of_nodes_per_root_node(1)
    setting.set_number_of_node_levels(1)
    taggers = []
    for t in range(1, cfg["ntags"] + 1):
        names = lambda key: ["t%d" % x for x in sorted(cfg[key][str(t)])]
        taggers.append(ScriptTagger(create=names("creates"), trash=names("trashes"),
                                    event_handler=StubStart() if t == 1 else Stub(), number_event_handlers=1 if t == 1 else cfg["pool"],
                                    tag="t%d" % t, activate=names("activates"), deactivate=names("deactivates")))
    act = TagActivator(taggers)
    act.initialize([])
    return act, taggers


def replay(beh, cfg):
    act, taggers = build(cfg)
    hid = {}
    for ti, t in enumerate(taggers, start=1):
        for i, h in enumerate(t.get_event_handlers(), start=1):
            hid[id(h)] = (ti, i)
    handler = {v: h for t in taggers for h in t.get_event_handlers() for v in [hid[id(h)]]}
    for step, obs in enumerate(beh):
        op = obs["op"]
        name = op["name"]
        if name == "finish":
            continue
        got_err = False
        ret = None
        try:
            if name == "first":
                SCRIPT.clear()
                SCRIPT.update({"t%d" % (i + 1): n for i, n in enumerate(op["gen"])})
                ret = act.get_event_handlers_to_run([], None)
            elif name == "update":
                SCRIPT.clear()
                SCRIPT.update({"t%d" % (i + 1): n for i, n in enumerate(op["gen"])})
                ret = act.get_event_handlers_to_run([], handler[(op["tag"], op["handler"])])
            elif name == "trash":
                ret = act.get_trashable_events(handler[(op["tag"], op["handler"])])
        except (TagActivatorError, AssertionError):
            got_err = True
        except Exception as e:
            return dict(step=step, what="TagActivator raised " + type(e).__name__, got=repr(e))
        if got_err != op["error"]:
            return dict(step=step, what="TagActivator %s where the model %s" % ("raises" if got_err else "does not raise",
                                                                              "does not" if got_err else "raises"), op=op)
        if not got_err:
            if name == "trash":
                got = [[hid[id(h)][1] for h in ret if hid[id(h)][0] == t] for t in range(1, cfg["ntags"] + 1)]
            else:
                got = [[hid[id(h)][1] for h in ret if hid[id(h)][0] == t] for t in range(1, cfg["ntags"] + 1)]
            want = [list(x) for x in op["ret"]]
            if got != want:
                return dict(step=step, what="handlers returned by %s differ from Activator.tla" % name, got=got, want=want, op=op)
        nr = [[hid[id(h)][1] for h in act._not_running_event_handlers[t]] for t in taggers]
        ru = [[hid[id(h)][1] for h in act._running_event_handlers[t]] for t in taggers]
        if not got_err and (nr != [list(x) for x in obs["nr"]] or ru != [list(x) for x in obs["ru"]]):
            return dict(step=step, what="running / not-running lists after %s differ from Activator.tla" % name,
                        got=[nr, ru], want=[obs["nr"], obs["ru"]], op=op)
        actv = [t.yield_identifiers_send_event_time is not t._deactivated_yield_identifiers_send_event_time for t in taggers]
        if not got_err and actv != obs["act"]:
            return dict(step=step, what="activation flags after %s differ from Activator.tla" % name, got=actv, want=obs["act"])
    return None


def main():
    spec = json.load(open(sys.argv[1]))
    fails, steps, kinds = [], 0, {}
    for idx, beh in enumerate(spec["behaviours"]):
        steps += len(beh)
        for o in beh:
            k = o["op"]["name"] + (":error" if o["op"].get("error") else "")
            kinds[k] = kinds.get(k, 0) + 1
        r = replay(beh, spec)
        if r is not None:
            r["behaviour"] = idx
            fails.append(r)
            if len(fails) >= 5:
                break
    setting.reset()
    json.dump(dict(behaviours=len(spec["behaviours"]), steps=steps, kinds=kinds, fails=fails), sys.stdout)


if __name__ == "__main__":
    main()
