"""C04 lattice driver (scratch copy): trace <seed> <n per axis> <out.ndjson>
Evaluates both potentials' derivative (unit speed along each axis) on a lattice of the minimum-image cube."""
import json
import random
import sys

from harness.build import assert_scratch_import
from harness.f64 import fkey

assert_scratch_import()
import jellyfysh.setting as setting  # noqa: E402
from jellyfysh.setting.hypercubic_setting import HypercubicSetting  # noqa: E402


def axis_points(n, half, rnd):
    """Coordinates in [-half, half]: uniform lattice, the faces, and geometric refinement towards 0 and the faces."""
    pts = {half, -half}       # not 0.0: on the symmetry plane both rates vanish and only summation noise remains
    for i in range(n):
        x = -half + (2 * half) * (i + 0.5) / n
        pts.add(x)
    for k in range(1, 9):
        e = half * 10.0 ** (-k / 2.0)
        pts.update({e, -e, half - e, -(half - e)})
    pts.update(rnd.uniform(-half, half) for _ in range(max(2, n // 4)))
    return sorted(pts)


def lattice(real, bound, L, n, rnd, out, tag):
    """Evaluate the pair (real, bound) on the lattice of the minimum-image cube of a box of length L."""
    worst = (0.0, None)
    count = 0
    pts = axis_points(n, L / 2, rnd)
    trans = sorted(set(pts[::max(1, len(pts) // (n + 4))]) | {0.0, L / 2, -L / 2, L / 2 * 0.9999, L / 2 * 0.99})
    for direction in range(3):
        vel = [0.0, 0.0, 0.0]
        vel[direction] = 1.0
        others = [d for d in range(3) if d != direction]
        for a in pts:
            for b in trans:
                for c in trans:
                    sep = [0.0, 0.0, 0.0]
                    sep[direction], sep[others[0]], sep[others[1]] = a, b, c
                    for c1c2 in (1.0, -1.0):
                        # as the event handlers do: one separation list, handed first to the bound, then to the potential
                        sep0 = list(sep)
                        qb = bound.derivative(vel, sep, 1.0, c1c2)
                        q = real.derivative(vel, sep, 1.0, c1c2)
                        sep = list(sep0)
                        count += 1
                        if q > 0 and qb > 0 and q / qb > worst[0]:
                            worst = (q / qb, [L, direction, sep0, c1c2])
                        out.write(json.dumps(dict(q=fkey(q), qb=fkey(qb), L=L, d=direction, s=sep0, c=c1c2, tag=tag)) + "\n")
    return count, worst


def config_pairs():
    """config <ini> <seed> <n> <out>: the (potential, bounding potential) objects the real factory builds for the
    handlers of a shipped configuration that use the nearest-image 1/r bound."""
    import os
    from configparser import ConfigParser
    import jellyfysh
    from jellyfysh.base import factory
    from jellyfysh.base.strings import to_camel_case
    from harness.recorder import is_dominating_pair
    ini, seed, n, path = sys.argv[2], int(sys.argv[3]), int(sys.argv[4]), sys.argv[5]
    pkg = os.path.dirname(os.path.abspath(jellyfysh.__file__))
    cfg = ConfigParser()
    cfg.read(os.path.join(pkg, ini))
    for sec in cfg.sections():
        for opt, val in cfg.items(sec):
            if opt == "filename":
                cfg.set(sec, opt, os.path.join(pkg, val) if val.startswith("config_files/") else os.path.basename(val))
    rnd = random.Random(seed)
    import contextlib
    with open(os.devnull, "w") as devnull, contextlib.redirect_stdout(devnull):
        factory.build_from_config(cfg, to_camel_case(cfg.get("Run", "setting")), "jellyfysh.setting")
        mediator = factory.build_from_config(cfg, to_camel_case(cfg.get("Run", "mediator")), "jellyfysh.mediator")
    out = open(path, "w")
    seen = set()
    total, worst = 0, (0.0, None)
    for h in mediator._event_handlers_list:
        if not is_dominating_pair(h):
            continue
        key = (type(h).__name__, h._potential._prefactor, h._bounding_potential._prefactor)
        if key in seen:
            continue
        seen.add(key)
        # the pair as the factory built it, and the same objects after the histories a run puts them through: deep copy
        # (one copy per event handler instance) and a dill round trip (dump + resume)
        import copy
        import dill
        variants = [("as built", h._potential, h._bounding_potential)]
        try:
            variants.append(("deep copy", copy.deepcopy(h._potential), copy.deepcopy(h._bounding_potential)))
            variants.append(("after dump and resume (dill round trip)",) + tuple(dill.loads(dill.dumps((h._potential, h._bounding_potential)))))
        except NotImplementedError:
            pass
        for vi, (vname, pot, bnd) in enumerate(variants):
            c, w = lattice(pot, bnd, h._potential._system_length, n, rnd, out,
                           type(h).__name__ + (", " + vname if vi else ""))
            total += c
            if w[0] > worst[0]:
                worst = w
    out.close()
    json.dump(dict(points=total, max_ratio=worst[0], at=worst[1], pairs=len(seen)), sys.stdout)


def main():
    if sys.argv[1] == "config":
        return config_pairs()
    seed, n, path = int(sys.argv[2]), int(sys.argv[3]), sys.argv[4]
    rnd = random.Random(seed)
    out = open(path, "w")
    worst = (0.0, None)
    count = 0
    for L in (1.0, 2.0, 10.0):
        setting.reset()
        HypercubicSetting(beta=1.0, dimension=3, system_length=L)
        setting.set_number_of_root_nodes(2)
        setting.set_number_of_nodes_per_root_node(1)
        setting.set_number_of_node_levels(1)
        from jellyfysh.potential.merged_image_coulomb_potential.merged_image_coulomb_potential import MergedImageCoulombPotential
        from jellyfysh.potential.inverse_power_coulomb_bounding_potential.inverse_power_coulomb_bounding_potential import \
            InversePowerCoulombBoundingPotential
        real, bound = MergedImageCoulombPotential(), InversePowerCoulombBoundingPotential()
        pts = axis_points(n, L / 2, rnd)
        long_pts = pts
        trans = sorted(set(pts[::max(1, len(pts) // (n + 4))]) | {0.0, L / 2, -L / 2, L / 2 * 0.9999, L / 2 * 0.99})
        for direction in range(3):
            vel = [0.0, 0.0, 0.0]
            vel[direction] = 1.0
            others = [d for d in range(3) if d != direction]
            for a in long_pts:
                for b in trans:
                    for c in trans:
                        sep = [0.0, 0.0, 0.0]
                        sep[direction], sep[others[0]], sep[others[1]] = a, b, c
                        if sep == [0.0, 0.0, 0.0]:
                            continue
                        for c1c2 in (1.0, -1.0):
                            q = real.derivative(vel, sep, 1.0, c1c2)
                            qb = bound.derivative(vel, sep, 1.0, c1c2)
                            count += 1
                            if q > 0 and qb > 0 and q / qb > worst[0]:
                                worst = (q / qb, [L, direction, sep, c1c2])
                            out.write(json.dumps(dict(q=fkey(q), qb=fkey(qb), L=L, d=direction, s=sep, c=c1c2)) + "\n")
    setting.reset()
    out.close()
    json.dump(dict(points=count, max_ratio=worst[0], at=worst[1]), sys.stdout)


if __name__ == "__main__":
    main()
