"""Execute long seeded histories on the real HeapScheduler + ListScheduler and log them for TraceHeap.tla.

usage: gen_heap_trace.py <seed> <steps> <nhandlers> <out.ndjson> <ops.txt>
Also writes the raw operation list for the ASan driver (harness/heap_driver.c).
Times live on the lattice q in 0..qmax, r = k/8; counters are logged relative to the pre-seeded offset
(2^32-1-MaxCounter) while a handler is in era 0, so that TLC (32-bit integers) sees small numbers.
"""
import json
import pickle
import random
import sys

from harness.build import assert_scratch_import

assert_scratch_import()
import dill  # noqa: E402
from jellyfysh.base.exceptions import SchedulerError  # noqa: E402
from jellyfysh.base.time import Time  # noqa: E402
from jellyfysh.scheduler.heap_scheduler.heap_scheduler import HeapScheduler  # noqa: E402
from jellyfysh.scheduler.heap_scheduler._heap import ffi, lib  # noqa: E402
from jellyfysh.scheduler.list_scheduler import ListScheduler  # noqa: E402

MAXC = 3
BIG = 1000000          # Time(inf, inf) in the trace (SchedAbs!PlusInf); finite quotients stay far below
OFF = 2 ** 32 - 1 - MAXC
INF = float("inf")


from harness.stubs import Handler  # noqa: E402


def main():
    seed, steps, nh = int(sys.argv[1]), int(sys.argv[2]), int(sys.argv[3])
    out = open(sys.argv[4], "w")
    ops = open(sys.argv[5], "w")
    rnd = random.Random(seed)
    handlers = {i: Handler(i) for i in range(1, nh + 1)}
    heap, lst = HeapScheduler(), ListScheduler()
    for h in handlers.values():
        heap._minimal_valid_counter[h] = OFF
        ops.write("S %d %d\n" % (h.ident, OFF))
    era = {i: 0 for i in handlers}
    live = {}
    qmax = rnd.choice([2, 5, 50])
    now = (0, 0)
    limit = int(sys.argv[6]) if len(sys.argv) > 6 else 250
    draining = False
    cur_len = 0
    last_ok = None
    phase_len = rnd.choice([40, 120, 300])
    npick = 0
    for step in range(steps):
        phase = (step // phase_len) % 4      # 0 fill, 1 churn, 2 drain, 3 mixed
        x = rnd.random()
        free = [i for i in handlers if i not in live]
        if phase == 0:
            kind = "push" if (x < 0.85 and free) else ("get" if x < 0.93 else "trash")
        elif phase == 1:
            kind = "trash" if x < 0.45 and live else ("push" if x < 0.9 and free else "get")
        elif phase == 2:
            kind = "get" if x < 0.5 else ("trash" if x < 0.9 and live else "push")
        else:
            kind = rnd.choice(["push", "trash", "get", "get", "repickle" if x < 0.3 else "push"])
        if cur_len > limit:
            draining = True
        elif cur_len < limit // 2:
            draining = False
        if draining:
            kind = "trash_last" if last_ok in live else "get"
        if force_trash[0] and last_ok in live:
            kind = "trash_last"
        force_trash[0] = False
        if kind == "push" and not free:
            kind = "trash"
        if kind == "trash" and not live:
            kind = "push" if free else "get"
        rec = {"op": kind}
        if kind == "push":
            # favour the lowest handler numbers in churn phases: many stale entries of few handlers (overflow path)
            h = rnd.choice(free[:3]) if (phase == 1 and rnd.random() < 0.7) else rnd.choice(free)
            if rnd.random() < 0.04:
                t, q, r = Time(INF, INF), BIG, BIG
            else:
                if rnd.random() < 0.93:
                    q = now[0] + rnd.randint(0, qmax)
                    r = rnd.randint(now[1] if q == now[0] else 0, 7)
                else:
                    q, r = rnd.randint(0, now[0] + 1), rnd.randint(0, 7)
                t = Time(float(q), r / 8.0)
            before = heap._minimal_valid_counter[handlers[h]]
            heap.push_event(t, handlers[h])
            lst.push_event(t, handlers[h])
            if q != BIG and before > 2 ** 32 - 1:
                era[h] += 1
            live[h] = (q, r)
            rec.update(h=h, q=q, r=r)
            ops.write("P %d %d %d\n" % (h, q, r) if q != BIG else "N\n")
        elif kind in ("trash", "trash_last"):
            cands = sorted(live)
            h = rnd.choice(cands[:3]) if (phase == 1 and rnd.random() < 0.7) else rnd.choice(cands)
            if kind == "trash_last":
                h = last_ok
                rec["op"] = "trash"
            heap.trash_event(handlers[h])
            lst.trash_event(handlers[h])
            del live[h]
            rec.update(h=h)
            ops.write("T %d\n" % h)
        elif kind == "repickle":
            npick += 1
            mod = pickle if npick % 2 else dill
            heap, lst, handlers = mod.loads(mod.dumps((heap, lst, handlers)))
            ops.write("K\n")
        else:
            finite = [v for v in live.values() if v[0] != BIG]
            try:
                ret = heap.get_succeeding_event()
                rec.update(ret=ret.ident, err="none")
                now = max(now, tuple(live[ret.ident]))
                last_ok = ret.ident
            except SchedulerError as e:
                rec.update(ret=0, err="empty" if "does not contain any events" in str(e) else "decreasing")
                if finite:   # make progress: the next trash removes a minimal live event
                    last_ok = min((v, k) for k, v in live.items() if v[0] != BIG)[1]
                    force_trash[0] = True
            ops.write("G\n")
            if finite:
                try:
                    lret = lst.get_succeeding_event()
                    rec["lt"] = list(live[lret.ident])
                except SchedulerError:
                    rec["lt"] = [-1, -1]
        # projected state
        arr = []
        i = 0
        while True:
            e = lib.entry(heap._heap, i)
            if e.event_handler == ffi.NULL:
                break
            hid = ffi.from_handle(e.event_handler).ident
            arr.append([int(e.time_quotient), int(e.time_remainder * 8), hid, e.counter - (OFF if era[hid] == 0 else 0)])
            i += 1
        cur_len = len(arr)
        if arr:
            any_alloc[0] = True
        elif kind == "repickle":
            any_alloc[0] = False     # __setstate__ builds a fresh C heap and inserts nothing
        rec["len"] = len(arr) + 1 if any_alloc[0] else 0
        if len(arr) <= 24 or step % 16 == 0 or step == steps - 1:
            rec["arr"] = arr
        if "h" in rec:
            rec["mv"] = heap._minimal_valid_counter[handlers[rec["h"]]] - (OFF if era[rec["h"]] == 0 else 0)
        out.write(json.dumps(rec) + "\n")
    out.close()
    ops.write("A\n")
    ops.close()
    json.dump(dict(steps=steps, eras=sum(era.values()), maxlen=0), sys.stdout)


any_alloc = [False]
force_trash = [False]

if __name__ == "__main__":
    main()
