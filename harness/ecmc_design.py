"""Design check per configuration: the `init' record the recorder reads from the objects the real factory built is the
constant of Ecmc.tla; TLC explores every leg sequence of the abstract run."""
import json
import os
from concurrent.futures import ThreadPoolExecutor

from harness import runs, tlc
from harness.build import run_py


def check_configs(sc, configs, sets=None, workers_each=4, timeout=1500, extra_args=None):
    d = sc.sub("ecmc")

    def one(cfg):
        name = cfg.split("/")[-2] + "_" + cfg.split("/")[-1][:-4]
        tr = os.path.join(d, name + ".ndjson")
        args = ["-m", "harness.runjf", "--config", cfg, "--seed", "1", "--legs", "1", "--trace", tr, "--workdir",
                os.path.join(d, "w_" + name)]
        for s in (sets or {}).get(cfg, []):
            args += ["--set", s]
        r = run_py(sc, args + (extra_args or []), timeout=600)
        if not os.path.exists(tr) or os.path.getsize(tr) == 0:
            return name, None, "cannot build configuration: " + (r.stdout[-300:] + r.stderr[-700:])
        init = json.loads(open(tr).readline())
        if init.get("ev") != "init":
            return name, None, "no init record: " + r.stdout[-500:]
        work = sc.sub("ecmc_" + name)
        write_cfg_module(init, work)
        res = tlc.run("Ecmc", "Ecmc.cfg", work, workers=workers_each, timeout=timeout,
                      java_opts=["-XX:ParallelGCThreads=2"])
        return name, res, None
    # largest state spaces first
    order = sorted(configs, key=lambda c: (0 if 'water/coulomb_cell' in c else 1 if 'cell' in c else 2))
    with ThreadPoolExecutor(6) as ex:
        return list(ex.map(one, order))


def bad_strings(res):
    """The `bad' set of the counterexample's last state."""
    import re
    m = re.findall(r"bad = \{([^}]*)\}", res.out)
    return m[-1] if m else ""


KEEP = ("units", "parent", "nleaves", "nroots", "levels")
TKEEP = ("tag", "kind", "creates", "trashes", "activates", "deactivates", "pool", "sys", "fmap", "rootmode", "aim", "start")
CKEEP = ("sys", "level", "maxocc", "per_side", "layers", "relevant")


def cfg_value(init):
    cfg = {k: init[k] for k in KEEP}
    cfg["taggers"] = [{k: t[k] for k in TKEEP} for t in init["taggers"]]
    cfg["cellsys"] = [{k: c[k] for k in CKEEP} for c in init["cellsys"]]
    return cfg


def write_cfg_module(init, workdir):
    """Copy the specs into the run directory and write EcmcCfg.tla with the configuration as a TLA+ literal."""
    import shutil
    specdir = os.path.join(workdir, "specs")
    if not os.path.isdir(specdir):
        shutil.copytree(tlc.SPECS, specdir)
    with open(os.path.join(specdir, "EcmcCfg.tla"), "w") as f:
        f.write("------------------------------ MODULE EcmcCfg ------------------------------\n")
        f.write("(* generated from label %s *)\n" % init.get("label", ""))
        f.write("Cfg == " + tlc.to_tla(cfg_value(init)) + "\n")
        f.write("=============================================================================\n")


HD_SETS = ["InputOutputHandler.input_handler=random_input_handler", "RandomInputHandler.random_node_creator=dipole_random_node_creator",
           "DipoleRandomNodeCreator.min_initial_dipole_separation=0.96", "DipoleRandomNodeCreator.max_initial_dipole_separation=1.04",
           "DipoleRandomNodeCreator.charge_values=electric_charge_values (charge_values)", "RandomInputHandler.number_of_root_nodes=2"]
# the two configurations whose .pdb input needs MDAnalysis: same tagger graph, random dipoles instead of the .pdb file
PDB_CONFIGS = {"config_files/hard_disk_dipoles/hard_disk_dipoles.ini": HD_SETS,
               "config_files/hard_disk_dipoles/hard_disk_dipoles_cells.ini": HD_SETS}


def design_for(chk, sc, pid, configs=None):
    """Run the per-configuration design check and report the clauses of property pid."""
    import re
    quick = chk.tier == "quick"
    cfgs = list(configs or runs.SHIPPED) + [c for c in PDB_CONFIGS if configs is None or "cells" in c]
    out = check_configs(sc, cfgs, sets=PDB_CONFIGS, timeout=100 if quick else 1500)
    partial = []
    for name, res, err in out:
        if res is None:
            chk.machinery("Ecmc design check: %s: %s" % (name, err))
            continue
        if res.timeout:
            # bounded exploration (breadth first up to the time limit): count what was explored, not a failure
            m = re.findall(r"([\d,]+) states generated.*?([\d,]+) distinct states found", res.out)
            if m:
                res.generated, res.distinct = int(m[-1][0].replace(",", "")), int(m[-1][1].replace(",", ""))
            res.error = None
            partial.append(name)
        chk.add_tlc("Ecmc/" + name, res)
        if res.violated:
            bad = bad_strings(res)
            msgs = re.findall(r'"([^"]+)"', bad)
            mine = [m for m in msgs if m.startswith(pid + " ")]
            if pid == "C07":
                # a stale candidate that can be committed carries a pre-time-sliced out-state: particles jump (C07)
                mine += ["C07 (via " + m + ")" for m in msgs if m.startswith("C08 ")]
            if "Mirror" in res.violated or "ActiveCellTrue" in res.violated:
                if pid == "C11":
                    mine.append("C11 %s violated in the design model" % ",".join(res.violated))
            if "Live" in res.violated and pid == "C09":
                mine.append("C09 no event pending although the run has not ended")
            for m in mine:
                chk.violation("design:%s" % m.split(":")[0], "Ecmc.tla on the tagger graph of %s: %s" % (name, m),
                              dict(config=name, counterexample=res.out[-12000:]))
    chk.notes["ecmc_partial_exploration"] = partial
    chk.assumptions.append("Ecmc.tla: configuration-level design check on the objects the real factory builds; quick tier "
                           "bounds each configuration to 100 s of breadth-first exploration (see ecmc_partial_exploration)")
