"""Initial configurations as the real input handlers generate them (scratch copy).

usage: drive_input.py <seed> <configurations per creator> <out.ndjson>
For the random node creators of the shipped dipole and water configurations (built by the real factory from the .ini files,
with 60 molecules per configuration): one record per molecule with measured facts (exact rationals) for TraceInit.tla:
  inbox  -- 1 iff every stored position (root and point masses) lies in [0, L)
  bary   -- distance between the stored root position and the weighted barycentre of the point masses (nearest images
            among the point masses), largest component, units of 2^-30 L
  still  -- 1 iff no unit has a velocity or a time stamp"""
import contextlib
import json
import math
import os
import random
import sys
from configparser import ConfigParser
from fractions import Fraction

from harness.build import assert_scratch_import

assert_scratch_import()
import jellyfysh  # noqa: E402
import jellyfysh.setting as setting  # noqa: E402
from jellyfysh.base import factory  # noqa: E402
from jellyfysh.base.strings import to_camel_case  # noqa: E402

P = "config_files/2018_JCP_149_064113/"
CONFIGS = [P + "dipoles/dipole_motion.ini", P + "dipoles/cell_veto.ini", P + "water/single_molecule.ini",
           P + "water/coulomb_power_bounded_lj_inverted.ini"]


def main():
    seed, n, path = int(sys.argv[1]), int(sys.argv[2]), sys.argv[3]
    pkg = os.path.dirname(os.path.abspath(jellyfysh.__file__))
    out = open(path, "w")
    total = 0
    for ci, ini in enumerate(CONFIGS):
        cfg = ConfigParser()
        if not cfg.read(os.path.join(pkg, ini)):
            raise RuntimeError("cannot read " + ini)
        cfg.set("RandomInputHandler", "number_of_root_nodes", "60")
        for k in range(n):
            random.seed(seed * 1000 + ci * 100 + k)
            setting.reset()
            with open(os.devnull, "w") as devnull, contextlib.redirect_stdout(devnull):
                factory.build_from_config(cfg, to_camel_case(cfg.get("Run", "setting")), "jellyfysh.setting")
                handler = factory.build_from_config(cfg, "RandomInputHandler", "jellyfysh.input_output_handler.input_handler")
                root = handler.read()
            Ls = [Fraction(x) for x in (setting.hypercubic_setting.system_length,) * setting.dimension] \
                if setting.hypercubic_setting.system_length is not None else [Fraction(x) for x in setting.hypercuboid_setting.system_lengths]
            for mol in (root if isinstance(root, (list, tuple)) else root.children):
                units = [mol.value] + [c.value for c in mol.children]
                inbox = int(all(0 <= Fraction(x) < Ls[d] for u in units for d, x in enumerate(u.position)))
                still = int(all(getattr(u, "velocity", None) is None and getattr(u, "time_stamp", None) is None for u in units))
                bary = 0
                if mol.children:
                    dim = len(mol.value.position)
                    ref = [Fraction(x) for x in mol.children[0].value.position]
                    b = list(ref)
                    for leaf in mol.children:
                        w = Fraction(leaf.weight)
                        for d in range(dim):
                            b[d] += w * ((Fraction(leaf.value.position[d]) - ref[d] + Ls[d] / 2) % Ls[d] - Ls[d] / 2)
                    worst = max(abs((Fraction(mol.value.position[d]) - b[d] + Ls[d] / 2) % Ls[d] - Ls[d] / 2) / Ls[d] for d in range(dim))
                    bary = min(10 ** 9, int(math.ceil(worst * 2 ** 30)))
                total += 1
                out.write(json.dumps(dict(cfg=ini.split("/")[-2] + "/" + ini.split("/")[-1], seed=seed * 1000 + ci * 100 + k,
                                          mol=total, inbox=inbox, bary=bary, still=still,
                                          leaves=len(mol.children))) + "\n")
    out.close()
    setting.reset()
    json.dump(dict(molecules=total), sys.stdout)


if __name__ == "__main__":
    main()
