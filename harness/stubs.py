"""Picklable stand-ins used by the replay harnesses."""


class Handler:
    def __init__(self, ident):
        self.ident = ident

    def __repr__(self):
        return "H%d" % self.ident
