"""Replay of Heap.tla behaviours (TLC simulation, printed by HeapSim!Emit) into the real scheduler code.

Runs inside the scratch copy (PYTHONPATH=<scratch>).  For every behaviour:
  * HeapScheduler driven through its public API; after every step the C array (lib.entry), the Python counters and the
    last returned time must equal the model's; `get' results and SchedulerErrors must equal the model's;
  * at `repickle' steps the scheduler goes through pickle / dill dumps+loads (alternating);
  * ListScheduler driven with the same calls: returned *time* and errors must agree whenever a finite live event exists.
Counter mapping: model counter c of a handler in era 0 is real counter c + (2^32-1-MaxCounter); the harness pre-seeds
_minimal_valid_counter accordingly (push_event uses setdefault), so the model's overflow step is the real OverflowError.
Output: JSON summary on stdout.
"""
import json
import pickle
import sys

from harness.build import assert_scratch_import

assert_scratch_import()
import dill  # noqa: E402
from jellyfysh.base.exceptions import SchedulerError  # noqa: E402
from jellyfysh.base.time import Time  # noqa: E402
from jellyfysh.scheduler.heap_scheduler.heap_scheduler import HeapScheduler  # noqa: E402
from jellyfysh.scheduler.heap_scheduler._heap import ffi, lib  # noqa: E402
from jellyfysh.scheduler.list_scheduler import ListScheduler  # noqa: E402

UINT_MAX = 2 ** 32 - 1
INF = float("inf")


from harness.stubs import Handler  # noqa: E402


# Two order-preserving embeddings of the model's time lattice (q, r) into Time(quotient, remainder): the plain one, and
# one in which the quotient is huge and the remainders of different times are closer than the spacing of doubles at the
# quotient (the situation after a long run; quotient + remainder as one float would no longer tell them apart).
FINE = False


def tq(q):
    return float(2 ** 50 + q) if FINE else float(q)


def tr(r, rdiv):
    # fine embedding: remainders next to 1/2, 2^-45 apart (exact in a double; a narrower representation cannot tell them apart)
    return 0.5 + r * 2.0 ** -45 if FINE else r / rdiv


def real_time(t, rdiv):
    if t[0] == 1000000:
        return Time(INF, INF)
    if t[0] == -1000000:
        return Time(-INF, -INF)
    return Time(tq(t[0]), tr(t[1], rdiv))


def read_array(sched):
    out = []
    i = 0
    while True:
        e = lib.entry(sched._heap, i)
        if e.event_handler == ffi.NULL:
            break
        out.append((e.time_quotient, e.time_remainder, ffi.from_handle(e.event_handler).ident, e.counter))
        i += 1
        if i > 100000:
            raise RuntimeError("entry() never returned the NULL entry")
    return out


def replay(beh, max_counter, rdiv, nhandlers, tolerant, drift):
    """Return None if the real code follows the behaviour, else a dict describing the first mismatch.

    Two kinds of comparison.  What the property (C06) talks about -- which error a call raises, that the returned handler
    has a live event and that its time is the model's minimal time -- is a mismatch.  The internal representation (C array
    entry by entry, deletion counters, last returned time) is compared as well, but a difference there only means that
    Heap.tla no longer transcribes the code: it is appended to `drift` (reported as a note) and the internals are not
    compared for the rest of the behaviour."""
    internals = True
    off = UINT_MAX - max_counter
    handlers = {i: Handler(i) for i in range(1, nhandlers + 1)}
    heap = HeapScheduler()
    for h in handlers.values():
        heap._minimal_valid_counter[h] = off
    lst = ListScheduler()
    live = {i: None for i in handlers}
    pick = 0
    for step, obs in enumerate(beh):
        op = obs["op"]
        name, h, t, err = op["name"], op["h"], op["t"], op["err"]
        got_err = None
        try:
            if name == "push":
                heap.push_event(real_time(t, rdiv), handlers[h])
                lst.push_event(real_time(t, rdiv), handlers[h])
                live[h] = tuple(t)
            elif name == "trash":
                heap.trash_event(handlers[h])
                if live[h] is not None or not tolerant:
                    lst.trash_event(handlers[h])
                live[h] = None
            elif name == "repickle":
                pick += 1
                mod = pickle if pick % 2 else dill
                heap, handlers, lst = mod.loads(mod.dumps((heap, handlers, lst)))
            elif name == "get":
                finite = [v for v in live.values() if v is not None and v[0] != 1000000]
                try:
                    ret = heap.get_succeeding_event()
                    got = ("none", live[ret.ident])
                    if internals and ret.ident != h:
                        drift.append(dict(step=step, what="tie broken differently: handler %d returned, model %d" % (ret.ident, h)))
                        internals = False
                except SchedulerError as e:
                    got = ("empty" if "does not contain any events" in str(e) else "decreasing", None)
                want = (err, tuple(t) if err == "none" else None)
                if got != want:
                    return dict(step=step, what="HeapScheduler.get_succeeding_event (live time of the returned handler)",
                                got=got, want=want)
                if finite:
                    try:
                        lret = lst.get_succeeding_event()
                        lgot = ("none", live[lret.ident])
                    except SchedulerError as e:
                        lgot = ("empty" if "does not contain any events" in str(e) else "decreasing", None)
                    lwant = (err, tuple(t) if err == "none" else None)
                    if lgot != lwant:
                        return dict(step=step, what="ListScheduler.get_succeeding_event (returned time)", got=lgot,
                                    want=lwant)
            else:
                return dict(step=step, what="unknown op " + name)
        except Exception as e:  # any other exception is a divergence from the model
            got_err = "%s: %s" % (type(e).__name__, e)
        if got_err:
            return dict(step=step, what="unexpected exception in " + name, got=got_err)
        if not internals:
            continue
        # --- compare the representation projected from the real object (transcription level)
        try:
            arr = read_array(heap)
            mv_now = [heap._minimal_valid_counter[handlers[i]] for i in sorted(handlers)]
            last_now = heap._last_returned_event[0]
        except (AttributeError, TypeError, KeyError) as e:
            drift.append(dict(step=step, what="representation not readable (%s: %s)" % (type(e).__name__, e)))
            internals = False
            continue
        era = obs["era"]
        want_arr = [(tq(q), tr(r, rdiv), hh, c + (off if era[hh - 1] == 0 else 0)) for q, r, hh, c in obs["arr"]]
        # entries of a handler written in era 0 keep their era-0 counters until deleted by the reset; the reset deletes
        # them all, so within one array all entries of a handler are of its current era.
        if arr != want_arr:
            drift.append(dict(step=step, what="C array after " + name, got=arr, want=want_arr))
            internals = False
            continue
        mv = [heap._minimal_valid_counter[handlers[i]] for i in sorted(handlers)]
        want_mv = [m + (off if era[i] == 0 else 0) for i, m in enumerate(obs["mv"])]
        if mv != want_mv:
            drift.append(dict(step=step, what="_minimal_valid_counter after " + name, got=mv, want=want_mv))
            internals = False
            continue
        last = heap._last_returned_event[0]
        wl = real_time(obs["last"], rdiv)
        if not (last.quotient == wl.quotient and last.remainder == wl.remainder):
            drift.append(dict(step=step, what="_last_returned_event after " + name, got=repr(last), want=repr(wl)))
            internals = False
    return None


def main():
    spec = json.load(open(sys.argv[1]))
    fails = []
    drifts = []
    steps = 0
    kinds = {}
    for idx, beh in enumerate(spec["behaviours"]):
        steps += len(beh)
        for obs in beh:
            k = obs["op"]["name"] + ":" + obs["op"]["err"]
            kinds[k] = kinds.get(k, 0) + 1
        global FINE
        for FINE in (False, True):
            drift = []
            r = replay(beh, spec["max_counter"], spec["rdiv"], spec["nhandlers"], spec.get("tolerant", False), drift)
            if drift and len(drifts) < 3:
                drifts.append(dict(behaviour=idx, fine=FINE, **drift[0]))
            if r is not None:
                r["behaviour"] = idx
                if FINE:
                    r["what"] += " (times embedded as quotient 2^50 + q, remainder 1/2 + r * 2^-45)"
                fails.append(r)
                break
        FINE = False
        if len(fails) >= 5:
            break
    json.dump(dict(behaviours=len(spec["behaviours"]), steps=steps, kinds=kinds, fails=fails, drift=drifts), sys.stdout)


if __name__ == "__main__":
    main()
