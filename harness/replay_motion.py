"""Replay of Motion.tla behaviours into the real event-handler classes + TreeStateHandler (scratch copy).

Every model action is executed the way the mediator does it: extract the in-state branches from the real
TreeStateHandler, let the real handler code (time slicing, _exchange_velocity, _pass_composite_object_velocity, the mode
switcher, the end-of-chain and sampling handlers, the start-of-run handler) produce the out-state, insert it; then the
whole global state must equal the model's.   usage: replay_motion.py <file.json>  {"nroots","nleaves","box","behaviours"}
"""
import json
import random
import sys

from harness.build import assert_scratch_import

assert_scratch_import()
import jellyfysh.setting as setting  # noqa: E402
from jellyfysh.setting.hypercubic_setting import HypercubicSetting  # noqa: E402
from jellyfysh.base.node import Node  # noqa: E402
from jellyfysh.base.unit import Unit  # noqa: E402
from jellyfysh.base.time import Time  # noqa: E402
from jellyfysh.state_handler.tree_state_handler import TreeStateHandler  # noqa: E402
from jellyfysh.state_handler.physical_state.tree_physical_state import TreePhysicalState  # noqa: E402
from jellyfysh.state_handler.lifting_state.tree_lifting_state import TreeLiftingState  # noqa: E402
from jellyfysh.event_handler.abstracts.abstracts import SingleActiveLeafUnitEventHandler  # noqa: E402
from jellyfysh.event_handler.abstracts.composite_objects import CompositeObjectsLifting  # noqa: E402
from jellyfysh.event_handler.root_leaf_unit_active_switcher import RootLeafUnitActiveSwitcher  # noqa: E402
from jellyfysh.event_handler.initial_chain_start_of_run_event_handler import InitialChainStartOfRunEventHandler  # noqa: E402
from jellyfysh.event_handler.fixed_interval_sampling_event_handler import FixedIntervalSamplingEventHandler  # noqa: E402
from jellyfysh.event_handler.single_independent_active_periodic_direction_end_of_chain_event_handler import \
    SingleIndependentActivePeriodicDirectionEndOfChainEventHandler  # noqa: E402


class PairHandler(SingleActiveLeafUnitEventHandler):
    """Concrete shell around the inherited bookkeeping methods (all logic is the repository's)."""
    def send_event_time(self, in_state):
        raise NotImplementedError

    def send_out_state(self):
        raise NotImplementedError


class ObjectHandler(CompositeObjectsLifting):
    def send_event_time(self, in_state):
        raise NotImplementedError

    def send_out_state(self):
        raise NotImplementedError


def ident(u):
    return tuple(x - 1 for x in u)


def build(nroots, nleaves, box, first_state):
    setting.reset()
    HypercubicSetting(beta=1.0, dimension=2, system_length=float(box))
    setting.set_number_of_root_nodes(nroots)
    setting.set_number_of_nodes_per_root_node(nleaves)
    setting.set_number_of_node_levels(2)
    posof = {tuple(u): p for u, p, v, t in first_state}
    roots = []
    for r in range(1, nroots + 1):
        node = Node(Unit((r - 1,), [float(x) for x in posof[(r,)]], {"q": 1.0}))
        for k in range(1, nleaves + 1):
            node.add_child(Node(Unit((r - 1, k - 1), [float(x) for x in posof[(r, k)]], {"q": 1.0})))
        roots.append(node)
    sh = TreeStateHandler(TreePhysicalState(), TreeLiftingState())
    sh.initialize(roots)
    return sh


def walk(n):
    yield n
    for c in n.children:
        yield from walk(c)


def project(sh):
    out = {}
    for root in sh.extract_global_state():
        for n in walk(root):
            u = n.value
            out[tuple(x + 1 for x in u.identifier)] = (
                [x for x in u.position], [x for x in u.velocity] if u.velocity is not None else [0, 0],
                (u.time_stamp.quotient + u.time_stamp.remainder) if u.time_stamp is not None else -1)
    return out


def leaf_cnode(branches, identifier):
    for b in branches:
        for n in walk(b):
            if tuple(n.value.identifier) == tuple(identifier):
                return n
    raise KeyError(identifier)


def replay(beh, nroots, nleaves, box):
    sh = build(nroots, nleaves, box, [[u, p, None, None] for u, p in beh["init"]])
    for step, obs in enumerate(beh["steps"]):
        op = obs["op"]
        name, t, args = op["name"], op["t"], op["args"]
        T = Time(float(t), 0.0)
        try:
            if name == "start":
                h = InitialChainStartOfRunEventHandler(initial_direction_of_motion=0, speed=float(nleaves),
                                                       initial_active_identifier=[0, 0])
                _, ids = h.send_event_time()
                out = h.send_out_state(sh.extract_from_global_state(tuple(ids[0])))
                sh.insert_into_global_state(out)
            elif name in ("lift", "slice"):
                a, b = ident(args[0]), ident(args[1])
                h = PairHandler()
                h._store_in_state([sh.extract_from_global_state(a), sh.extract_from_global_state(b)])
                h._construct_leaf_cnodes()
                h._extract_active_leaf_unit()
                h._event_time = T
                h._time_slice_all_units_in_state()
                if name == "lift":
                    h._exchange_velocity(leaf_cnode(h._state, a), leaf_cnode(h._state, b))
                sh.insert_into_global_state(h._state)
            elif name == "pass":
                r, s = ident(args[0]), ident(args[1])
                h = ObjectHandler()
                h._store_in_state([sh.extract_from_global_state(r), sh.extract_from_global_state(s)])
                h._event_time = T
                h._time_slice_all_units_in_state()
                h._construct_leaf_cnodes()
                h._construct_leaf_units_of_composite_objects()
                h._pass_composite_object_velocity()
                sh.insert_into_global_state(h._state)
            elif name in ("to_root", "to_leaf"):
                r = ident(args[0])
                h = RootLeafUnitActiveSwitcher(chain_length=1.0, aim_mode="root_unit_active" if name == "to_root"
                                               else "leaf_unit_active")
                h._event_time = T
                if name == "to_leaf":
                    k = ident(args[1])
                    real_choice = random.choice
                    random.choice = lambda seq: [c for c in seq if tuple(c.value.identifier) == k][0]
                    try:
                        out = h.send_out_state([sh.extract_from_global_state(r)])
                    finally:
                        random.choice = real_choice
                else:
                    out = h.send_out_state([sh.extract_from_global_state(r)])
                sh.insert_into_global_state(out)
            elif name == "end_of_chain":
                n = ident(args[1])
                h = SingleIndependentActivePeriodicDirectionEndOfChainEventHandler(chain_time=1.0)
                h._event_time = T
                out = h.send_out_state(sh.extract_active_global_state(), [sh.extract_from_global_state(n)])
                sh.insert_into_global_state(out)
            elif name == "sample":
                h = FixedIntervalSamplingEventHandler(sampling_interval=1.0, output_handler="x")
                h._event_time = T
                out = h.send_out_state(sh.extract_active_global_state())
                sh.insert_into_global_state(out)
            elif name == "finish":
                pass
            else:
                return dict(step=step, what="unknown op " + name)
        except Exception as e:
            import traceback
            return dict(step=step, what="real handler raised in " + name, got=repr(e), tb=traceback.format_exc()[-800:])
        got = project(sh)
        want = {tuple(u): ([float(x) for x in p], [float(x) for x in v], float(ts)) for u, p, v, ts in obs["state"]}
        got = {k: ([float(x) for x in p], [float(x) for x in v], float(ts)) for k, (p, v, ts) in got.items()}
        if got != want:
            diff = {str(k): dict(got=got[k], want=want[k]) for k in want if got.get(k) != want[k]}
            return dict(step=step, what="global state after %s differs from Motion.tla" % name, diff=diff, op=op)
    return None


def main():
    spec = json.load(open(sys.argv[1]))
    fails, steps, kinds = [], 0, {}
    for idx, beh in enumerate(spec["behaviours"]):
        steps += len(beh["steps"])
        for o in beh["steps"]:
            kinds[o["op"]["name"]] = kinds.get(o["op"]["name"], 0) + 1
        r = replay(beh, spec["nroots"], spec["nleaves"], spec["box"])
        if r is not None:
            r["behaviour"] = idx
            fails.append(r)
            if len(fails) >= 5:
                break
    setting.reset()
    json.dump(dict(behaviours=len(spec["behaviours"]), steps=steps, kinds=kinds, fails=fails), sys.stdout)


if __name__ == "__main__":
    main()
