"""C14 driver (runs in the scratch copy).

  table <table.json>            : replay Time.tla's evaluation table into the real Time for three quotient offsets
  trace <seed> <n> <out.ndjson> : evaluate the real Time on boundary + seeded random doubles, log keys and residuals
"""
import json
import math
import random
import sys
from fractions import Fraction

from harness.build import assert_scratch_import
from harness.f64 import fkey, tkey, pred, succ, exact, ulp_exact

assert_scratch_import()
from jellyfysh.base.time import Time, inf as TINF  # noqa: E402
from jellyfysh.scheduler.heap_scheduler import HeapScheduler  # noqa: E402
from jellyfysh.scheduler.list_scheduler import ListScheduler  # noqa: E402
from harness.stubs import Handler as StubHandler  # noqa: E402

BIG = 100000
INF = math.inf
DEN = 8.0


def mk(q, r, q0, via_update=False):
    t = Time(INF, INF) if q == BIG else Time(float(q0 + q), r / DEN)
    if via_update:
        # the object reaches its value through Time.update (how event handlers advance time stamps), from another value
        obj = Time(float(q0 + 1), 0.375) if q != BIG and q <= 1 else Time(float(q0 - 1), 0.625)
        obj.update(t)
        return obj
    return t


def same(t, q, r, q0):
    if q == BIG:
        return t.quotient == INF and t.remainder == INF
    return t.quotient == float(q0 + q) and t.remainder == r / DEN


def table(path):
    tab = json.load(open(path))
    fails = []
    n = 0
    for q0 in (0, 2 ** 31, 2 ** 52 - 16):
        for q, r, d, rq, rr in tab["adds"]:
            for upd in (False, True):
                n += 1
                res = mk(q, r, q0, upd) + (INF if d == BIG else d / DEN)
                if not same(res, rq, rr, q0):
                    fails.append(dict(what="Time.__add__" + (" (object set by update)" if upd else ""), q0=q0, args=[q, r, d],
                                      got=repr(res), want=[rq, rr]))
        ops = ["__lt__", "__le__", "__gt__", "__ge__", "__eq__", "__ne__"]
        for row in tab["cmps"]:
            sq, sr, tq, tr = row[:4]
            for us, ut in ((False, False), (True, False), (False, True), (True, True)):
                s, t = mk(sq, sr, q0, us), mk(tq, tr, q0, ut)
                got = [int(bool(x)) for x in (s < t, s <= t, s > t, s >= t, s == t, s != t)]
                n += 6
                if got != row[4:]:
                    bad = [ops[i] for i in range(6) if got[i] != row[4 + i]]
                    fails.append(dict(what="Time comparison " + ",".join(bad) + (" (objects set by update)" if us or ut else ""),
                                      q0=q0, args=row[:4], got=got, want=row[4:], updated=[us, ut]))
        # the same order inside the schedulers (heap.c compares quotient, then remainder, in C): whatever is returned, no
        # live event is smaller according to the model's table of comparisons
        lt = {(tuple(row[:2]), tuple(row[2:4])): row[4] for row in tab["cmps"]}
        vals = sorted({k[0] for k in lt})
        rng = random.Random(q0 % 1000 + 3)
        for trial in range(400):
            for name, cls in (("HeapScheduler (heap.c)", HeapScheduler), ("ListScheduler", ListScheduler)):
                sched = cls()
                hs = [StubHandler(i) for i in range(5)]
                at = {h: rng.choice(vals) for h in hs}
                if all(v[0] == BIG for v in at.values()):
                    continue
                near = trial % 4 >= 2       # half of the trials: remainders 1/2 + r * 2^-44 (order preserving, 2^-44 apart)
                for h in rng.sample(hs, len(hs)):
                    if near and at[h][0] != BIG:
                        sched.push_event(Time(float(q0 + at[h][0]), 0.5 + at[h][1] * 2.0 ** -44), h)
                    else:
                        sched.push_event(mk(at[h][0], at[h][1], q0), h)
                if trial % 2:
                    # every second trial: the scheduler goes through a dump (pickle round trip) before it is asked
                    import pickle
                    sched, hs2, at2 = pickle.loads(pickle.dumps((sched, hs, [at[h] for h in hs])))
                    at = dict(zip(hs2, at2))
                    hs = hs2
                live = set(hs)
                while live and not all(at[h][0] == BIG for h in live):
                    n += 1
                    got = sched.get_succeeding_event()
                    smaller = [at[g] for g in live if lt.get((at[g], at[got]), 0)]
                    if got not in live or smaller:
                        fails.append(dict(what="order of times inside %s differs from the order of Time.tla" % name, q0=q0,
                                          args=sorted(at[h] for h in live), returned=at.get(got), smaller_live=smaller))
                        break
                    sched.trash_event(got)
                    live.discard(got)
        for sq, sr, tq, tr, want in tab["subs"]:
            n += 1
            got = mk(sq, sr, q0, True) - mk(tq, tr, q0)
            if got != want / DEN:
                fails.append(dict(what="Time.__sub__", q0=q0, args=[sq, sr, tq, tr], got=got, want=want / DEN))
        if q0 < 2 ** 40:
            for x, rq, rr in tab["ffs"]:
                n += 1
                res = Time.from_float(INF if x == BIG else q0 + x / DEN)
                if not same(res, rq, rr, q0):
                    fails.append(dict(what="Time.from_float", q0=q0, args=[x], got=repr(res), want=[rq, rr]))
        if len(fails) > 20:
            break
    json.dump(dict(evaluations=n, fails=fails[:20]), sys.stdout)


def value(t):
    return exact(t.quotient) + exact(t.remainder)


def finite(t):
    return math.isfinite(t.quotient) and math.isfinite(t.remainder)


def trace(seed, n, path):
    rnd = random.Random(seed)
    out = open(path, "w")

    def emit(**rec):
        out.write(json.dumps(rec) + "\n")

    one_m = pred(1.0)
    quots = [0.0, 1.0, 2.0, 57854.0, 2.0 ** 31, 2.0 ** 40 + 3, 2.0 ** 52 - 2, 2.0 ** 52]
    rems = [0.0, 5e-324, 2.0 ** -1074 * 7, 2.0 ** -60, 0.1, 0.25, 0.5, pred(0.5), succ(0.5), 0.75, pred(0.75), 0.9,
            pred(one_m), one_m]
    disps = [0.0, 5e-324, 2.2250738585072014e-308, 2.0 ** -60, 2.0 ** -54, 2.0 ** -53, pred(2.0 ** -53), 1e-17, 0.1, 0.25,
             pred(0.25), succ(0.25), 0.5, pred(0.5), succ(0.5), one_m, 1.0, succ(1.0), pred(2.0), 1.5, 3.75, 1e3 + 0.3,
             2.0 ** 20 + 0.7, 2.0 ** 40, pred(2.0 ** 40)]
    times = [Time(q, r) for q in quots for r in rems]
    for _ in range(n):
        q = float(rnd.choice([rnd.randint(0, 10), rnd.randint(0, 2 ** 31), rnd.randint(0, 2 ** 52)]))
        times.append(Time(q, rnd.choice([rnd.random(), rnd.random() * 2.0 ** -rnd.randint(0, 60), rnd.choice(rems)])))

    def add_record(t, d):
        res = t + d
        rec = dict(op="add", t=tkey(t), d=fkey(d), dneg=int(d < 0), res=tkey(res),
                   qint=int(finite(res) and res.quotient == math.floor(res.quotient)), err2=0)
        if finite(res):
            # the one rounding the implementation performs is that of remainder + displacement: half a unit in the last place
            # of the exact sum (exact rationals from bit patterns; no float operation of the harness is involved)
            half = ulp_exact(exact(t.remainder) + exact(d)) / 2
            diff = abs(value(res) - (value(t) + exact(d)))
            rec["err2"] = int(math.ceil(diff / half)) if diff else 0
            rec["err2"] = min(rec["err2"], 1000000)
        else:
            rec["err2"] = 1000000
        emit(**rec)
        return res

    for t in times:
        ds = list(disps) + [rnd.random() * 10.0 ** rnd.randint(-20, 12) for _ in range(4)]
        # displacements that land next to the carry boundary 1 - remainder
        gap = 1.0 - t.remainder
        ds += [gap, pred(gap), succ(gap), pred(pred(gap))]
        ds = sorted(set(d for d in ds if d >= 0.0))
        prev = None
        for d in ds:
            res = add_record(t, d)
            if prev is not None:
                emit(op="mono", t=tkey(t), d1=fkey(prev[0]), d2=fkey(d), r1=tkey(prev[1]), r2=tkey(res))
            prev = (d, res)
        emit(op="addinf", t=tkey(t), res=tkey(t + INF))
        emit(op="infcmp", lt=int(t < TINF), gt=int(t > TINF), eq=int(t == TINF))
    emit(op="addinf", t=tkey(TINF), res=tkey(TINF + INF))
    # comparisons of normalised times: among neighbours and random pairs
    norm = [t for t in times if 0.0 <= t.remainder < 1.0]
    pairs = [(a, b) for a in norm[:len(quots) * len(rems)] for b in rnd.sample(norm, 6)]
    pairs += [(a, a) for a in norm[:40]]
    # neighbours in the list of remainders (denormals, values next to 1/2, 3/4, 1) at every quotient, both ways round
    srt = sorted(set(rems), key=lambda x: exact(x))
    for q in quots:
        for r1, r2 in zip(srt, srt[1:]):
            pairs += [(Time(q, r1), Time(q, r2)), (Time(q, r2), Time(q, r1))]
    pairs += [(Time(q, one_m), Time(q + 1.0, 0.0)) for q in quots] + [(Time(q + 1.0, 0.0), Time(q, one_m)) for q in quots]
    def updated(t):
        o = Time(t.quotient + 2.0, 0.5) if math.isfinite(t.quotient) else Time(0.0, 0.5)
        o.update(t)
        return o
    pairs += [(updated(a), b) for a, b in pairs[:200]] + [(a, updated(b)) for a, b in pairs[:200]]
    for a, b in pairs:
        emit(op="cmp", a=tkey(a), b=tkey(b), lt=int(a < b), le=int(a <= b), gt=int(a > b), ge=int(a >= b),
             eq=int(a == b), ne=int(a != b), rat=int(value(a) < value(b)))
        d = a - b
        exact_d = value(a) - value(b)
        unit = ulp_exact(max(Fraction(1), abs(exact_d)))
        emit(op="sub", a=tkey(a), b=tkey(b), ulps=min(1000000, int(math.ceil(abs(exact(d) - exact_d) / unit))))
    for x in [0.0, 5e-324, 0.1, one_m, 1.0, succ(1.0), 2.5, 1e15 + 0.5, 2.0 ** 52, 2.0 ** 52 + 1, 2.0 ** 60, 1e300] + \
            [rnd.random() * 10.0 ** rnd.randint(-30, 18) for _ in range(n)]:
        res = Time.from_float(x)
        emit(op="ff", x=fkey(x), res=tkey(res), exact=int(finite(res) and value(res) == exact(x)
                                                         and res.quotient == math.floor(res.quotient)))
    res = Time.from_float(INF)
    emit(op="addinf", t=tkey(res), res=tkey(res))
    out.close()


if __name__ == "__main__":
    if sys.argv[1] == "table":
        table(sys.argv[2])
    else:
        trace(int(sys.argv[2]), int(sys.argv[3]), sys.argv[4])
