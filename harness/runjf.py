"""One real JeLLyFysh run in its own process, under the recorder (DESIGN.md section 3.3).

python -m harness.runjf --config <ini path relative to the jellyfysh package> --seed S --legs N --trace out.ndjson
                        --workdir W [--set Section.option=value]... [--norecord]
python -m harness.runjf --resume <dumpfile> --legs N --trace out.ndjson --workdir W
"""
import argparse
import contextlib
import json
import os
import random
import sys
import traceback

from harness.build import assert_scratch_import

assert_scratch_import()
import jellyfysh  # noqa: E402


def main():
    ap = argparse.ArgumentParser()
    ap.add_argument("--config")
    ap.add_argument("--resume")
    ap.add_argument("--seed", type=int, default=1)
    ap.add_argument("--legs", type=int, default=None)
    ap.add_argument("--trace", required=True)
    ap.add_argument("--workdir", required=True)
    ap.add_argument("--set", action="append", default=[])
    ap.add_argument("--remove-tagger", action="append", default=[])
    ap.add_argument("--label", default="")
    ap.add_argument("--add-dumping", default=None, help="dumping interval: add a dumping tagger to the configuration")
    ap.add_argument("--streams", type=int, default=None, help="seed: give every event handler its own random stream")
    ap.add_argument("--multi", type=int, default=None, help="number of cores: run under the multi-process mediator")
    ap.add_argument("--schedule", default=None, help="JSON: {policy, seed, delays: {hid: [t, o]}} for the multi-process run")
    ap.add_argument("--roundtrip", action="store_true",
                    help="after the recorded legs: dill round trip of the mediator (what a dump persists) and comparison of the "
                         "fingerprints (harness/fingerprint.py) of the live and the reloaded mediator")
    ap.add_argument("--preset-counters", type=int, default=None,
                    help="K: every event handler's lazy-deletion counter of the heap scheduler starts 1..K below 2^32 (the "
                         "state after that many trashes), so the counter wrap-around happens during the recorded legs")
    a = ap.parse_args()
    if a.preset_counters:
        from jellyfysh.scheduler.heap_scheduler.heap_scheduler import HeapScheduler
        orig_push = HeapScheduler.push_event
        seen = {}

        def push_event(self, time, event_handler, *rest, **k):
            if event_handler not in self._minimal_valid_counter:
                seen[id(self)] = seen.get(id(self), 0) + 1
                self._minimal_valid_counter[event_handler] = 2 ** 32 - 1 - (seen[id(self)] * 7) % a.preset_counters
            return orig_push(self, time, event_handler, *rest, **k)
        HeapScheduler.push_event = push_event
    os.makedirs(a.workdir, exist_ok=True)
    os.chdir(a.workdir)
    pkg = os.path.dirname(os.path.abspath(jellyfysh.__file__))
    from harness import recorder
    rec = recorder.Recorder(a.trace, max_legs=a.legs, label=a.label or (a.config or a.resume))
    recorder.install(rec)
    random.seed(a.seed)
    status = dict(ok=True)
    if a.streams is not None:
        rec.streams = {}
        rec.stream_seed = a.streams
    sched = json.loads(a.schedule) if a.schedule else None
    try:
        with open(os.devnull, "w") as devnull, contextlib.redirect_stdout(devnull):
            if a.resume:
                import jellyfysh.resume as resume
                sys.argv[1:] = [a.resume]
                # the dumped mediator is unpickled, not constructed: tell the recorder once it is loaded
                import dill
                orig_load = dill.load

                def load(f, *x, **k):
                    obj = orig_load(f, *x, **k)
                    med = obj[0]
                    import jellyfysh.setting as setting
                    setting.__dict__.update(obj[1].__dict__)
                    if os.path.exists(a.resume + ".rec.json"):
                        rec.load_state(a.resume + ".rec.json")
                        if a.legs:
                            rec.max_legs = rec.legs + a.legs
                    rec.on_mediator_built(med)
                    return obj
                resume.dill.load = load
                resume.main()
            else:
                import jellyfysh.run as run
                from configparser import ConfigParser
                cfg = ConfigParser()
                path = os.path.join(pkg, a.config)
                if not cfg.read(path):
                    raise RuntimeError("cannot read " + path)
                for sec in cfg.sections():
                    for opt, val in cfg.items(sec):
                        if opt == "filename":
                            if val.startswith("config_files/"):
                                cfg.set(sec, opt, os.path.join(pkg, val))
                            else:
                                cfg.set(sec, opt, os.path.basename(val))   # relative to cwd = workdir (some handlers split the name at dots)
                for s in a.set:
                    key, val = s.split("=", 1)
                    sec, opt = key.split(".", 1)
                    if not cfg.has_section(sec):
                        cfg.add_section(sec)
                    cfg.set(sec, opt, val)
                if a.add_dumping:
                    add_dumping(cfg, a.add_dumping)
                if a.multi:
                    use_multi_process(cfg, a.multi, rec, sched)
                for tag in a.remove_tagger:
                    remove_tagger(cfg, tag)
                for sec in cfg.sections():
                    if cfg.has_option(sec, "end_of_run_time"):
                        rec.end_time = float(cfg.get(sec, "end_of_run_time"))
                run.read_config = lambda _: cfg
                sys.argv[1:] = [path]
                run.main()
        rec.emit("end", reason=rec.stop_reason or "end_of_run", exc="", children=live_children())
    except BaseException as e:   # noqa
        status = dict(ok=False, exc=type(e).__name__, msg=str(e)[:500], tb=traceback.format_exc()[-3000:])
        # an exception raised by the harness's own code (recorder wrapper reading an attribute that no longer exists, calling
        # a wrapped method with an outdated signature, ...) is a failure of the machinery, not of the code under test
        tb_last = e.__traceback__
        while tb_last is not None and tb_last.tb_next is not None:
            tb_last = tb_last.tb_next
        last_line = (traceback.extract_tb(e.__traceback__)[-1].line or "") if e.__traceback__ is not None else ""
        # ... unless the failing statement is a wrapper's pass-through call `orig(self, *a, **k)`: the wrappers forward exactly
        # what the real caller passed, so a TypeError there (wrong number of arguments) is the real caller's
        if tb_last is not None and os.sep + "harness" + os.sep in tb_last.tb_frame.f_code.co_filename \
                and "orig(" not in last_line and not isinstance(e, (SystemExit, KeyboardInterrupt)):
            status = dict(ok=False, exc="harness", msg="%s raised in %s:%d: %s" % (
                type(e).__name__, os.path.basename(tb_last.tb_frame.f_code.co_filename), tb_last.tb_lineno, str(e)[:300]),
                tb=traceback.format_exc()[-3000:])
        try:
            rec.emit("end", reason="exception", exc=type(e).__name__, msg=str(e)[:300], children=live_children())
        except Exception:
            pass
    if a.roundtrip and status.get("ok") and rec.mediator is not None:
        try:
            import dill
            from harness import fingerprint as fpm
            live = fpm.fingerprint(rec.mediator)
            again = fpm.fingerprint(rec.mediator)
            loaded = fpm.fingerprint(dill.loads(dill.dumps(rec.mediator)))
            status["roundtrip"] = dict(stable=fpm.first_difference(live, again) is None,
                                       difference=fpm.first_difference(live, loaded),
                                       sizes=dict(surplus=sum(len(c["surplus"]) for c in live["cells"]),
                                                  instates=sum(len(t[1]) for t in live["taggers"]), scheduler=len(live["scheduler"]),
                                                  potentials=len(live["potentials"])))
        except Exception as e:      # noqa
            status["roundtrip"] = dict(error="%s: %s" % (type(e).__name__, str(e)[:300]))
    rec.close()
    json.dump(status, sys.stdout)


def live_children():
    try:
        import multiprocessing
        return len(multiprocessing.active_children())
    except Exception:
        return -1


def use_multi_process(cfg, cores, rec, sched):
    """Switch the configuration to the multi-process mediator and install the schedule shim for connection.wait."""
    old = "SingleProcessMediator"
    cfg.set("Run", "mediator", "multi_process_mediator")
    cfg.add_section("MultiProcessMediator")
    for opt, val in cfg.items(old):
        cfg.set("MultiProcessMediator", opt, val)
    cfg.set("MultiProcessMediator", "number_cores", str(cores))
    cfg.remove_section(old)
    import random as _random
    import jellyfysh.mediator.multi_process_mediator.multi_process_mediator as mpm
    real_connection = mpm.connection
    policy = (sched or {}).get("policy", "native")
    rnd = _random.Random((sched or {}).get("seed", 0))
    rec.delays = {int(k): tuple(v) for k, v in (sched or {}).get("delays", {}).items()}

    class Shim:
        """connection.wait that reports a harness-chosen subset / order of the really ready pipes (a legal result)."""
        calls = 0

        def __getattr__(self, name):
            return getattr(real_connection, name)

        @staticmethod
        def wait(pipes, timeout=None):
            ready = real_connection.wait(pipes, timeout)
            if policy == "native" or not ready:
                return ready
            if policy == "linger":
                # give the other workers a moment, so that several pipes are ready and the order below matters
                import time
                time.sleep(0.002)
                ready = real_connection.wait(pipes, 0) or ready
            ready = list(ready)
            if policy == "script":
                # systematic exploration: the k-th call that has a real choice reports the pipe named by the script
                import time
                time.sleep(0.003)
                ready = list(real_connection.wait(pipes, 0) or ready)
                ready.sort(key=lambda p: p.fileno())
                if len(ready) == 1:
                    return ready
                script = (sched or {}).get("script", [])
                k = Shim.calls
                Shim.calls += 1
                return [ready[(script[k] if k < len(script) else 0) % len(ready)]]
            if policy in ("one", "linger"):
                return [rnd.choice(ready)]
            if policy == "reverse":
                return ready[::-1]
            rnd.shuffle(ready)
            return ready
    mpm.connection = Shim()


def add_dumping(cfg, interval):
    """Add a fixed-interval dumping tagger (as in power_bounded_dump.ini) to a configuration that has none."""
    if "dumping" in cfg.get("TagActivator", "taggers"):
        cfg.set("FixedIntervalDumpingEventHandler", "dumping_interval", interval)
        return
    cfg.set("TagActivator", "taggers", cfg.get("TagActivator", "taggers").rstrip().rstrip(",") + ",\n    dumping (no_in_state_tagger)")
    cfg.add_section("Dumping")
    cfg.set("Dumping", "create", "dumping")
    cfg.set("Dumping", "trash", "dumping")
    cfg.set("Dumping", "event_handler", "fixed_interval_dumping_event_handler")
    cfg.add_section("FixedIntervalDumpingEventHandler")
    cfg.set("FixedIntervalDumpingEventHandler", "dumping_interval", interval)
    cfg.set("FixedIntervalDumpingEventHandler", "output_handler", "dumping_output_handler")
    cfg.add_section("DumpingOutputHandler")
    cfg.set("DumpingOutputHandler", "filename", "dump.dat")
    cfg.set("StartOfRun", "create", cfg.get("StartOfRun", "create").rstrip().rstrip(",") + ", dumping")
    cfg.set("EndOfRun", "trash", cfg.get("EndOfRun", "trash").rstrip().rstrip(",") + ", dumping")
    cfg.set("InputOutputHandler", "output_handlers",
            cfg.get("InputOutputHandler", "output_handlers").rstrip().rstrip(",") + ", dumping_output_handler")


def remove_tagger(cfg, tag):
    """Drop one tagger (e.g. dumping) from the activator's list and from every create/trash/activate/deactivate list."""
    sec = "TagActivator"
    items = [x.strip() for x in cfg.get(sec, "taggers").replace("\n", " ").split(",") if x.strip()]
    cfg.set(sec, "taggers", ", ".join(x for x in items if x.split()[0] != tag))
    for s in cfg.sections():
        for opt in ("create", "trash", "activate", "deactivate"):
            if cfg.has_option(s, opt):
                vals = [x.strip() for x in cfg.get(s, opt).replace("\n", " ").split(",") if x.strip()]
                cfg.set(s, opt, ", ".join(v for v in vals if v != tag))


if __name__ == "__main__":
    main()
