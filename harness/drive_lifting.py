"""C05 / C18 drivers (scratch copy).

  table <lifting-table.json>         : every (scheme, table, active, draw) of Lifting.tla on the real lifting classes
  walker <walker-table.json>         : every rate vector of Walker.tla on the real Walker
  flows <lifting-table.json> <out>   : what the real lifting classes select for every table of Lifting.tla, every active
                                       unit and every unit piece of the draw range -> records for TraceLifting.tla
  handler <n> <out>                  : the same through the real TwoCompositeObjectSummedBoundingPotentialEventHandler
                                       (scripted pair derivatives, 2+2 and 3+3 point masses, every point mass active)
"""
import contextlib
import json
import os
import random
import sys

from harness.build import assert_scratch_import

assert_scratch_import()
from jellyfysh.lifting.inside_first_lifting import InsideFirstLifting  # noqa: E402
from jellyfysh.lifting.outside_first_lifting import OutsideFirstLifting  # noqa: E402
from jellyfysh.lifting.ratio_lifting import RatioLifting  # noqa: E402
from jellyfysh.event_handler.walker import Walker, WalkerItem  # noqa: E402

_real_uniform = random.uniform
_real_choice = random.choice


class Script:
    """Scripted replacement of random.uniform / random.choice (the model's draws)."""

    def __init__(self):
        self.frac = {}        # (a, b) -> value to return;  or a callable
        self.calls = []

    def uniform(self, a, b):
        self.calls.append((a, b))
        return self.next_uniform(a, b)


def table(path):
    tab = json.load(open(path))
    fails, n = [], 0
    long_lived = {"inside": InsideFirstLifting(), "outside": OutsideFirstLifting(), "ratio": RatioLifting()}
    fresh_cls = {"inside": InsideFirstLifting, "outside": OutsideFirstLifting, "ratio": RatioLifting}
    draws = {}

    def uniform(a, b):
        draws["calls"].append((a, b))
        return draws["queue"].pop(0)(a, b)
    random.uniform = uniform
    try:
        for row in tab["rows"]:
            t, a = row["t"], row["a"]

            def select(obj, first, second=None):
                draws["calls"] = []
                draws["queue"] = [first] + ([second] if second else [])
                obj.reset()
                for i, rate in enumerate(t, start=1):
                    obj.insert(float(rate), ("unit", i), i == a)
                got = obj.get_active_identifier()
                return got[1], list(draws["calls"])

            cases = []
            for j, (ins, outs) in enumerate(row["io"]):
                u = j + 0.5
                cases.append(("inside", lambda lo, hi, u=u: lo + u, None, ins, u))
                cases.append(("outside", lambda lo, hi, u=u: lo + u, None, outs, u))
            for j, sel in enumerate(row["ra"]):
                w = j + 0.5
                cases.append(("ratio", lambda lo, hi: lo + 0.5, lambda lo, hi, w=w: lo + w, sel, w))
            # end points: the draw sits exactly on an interval boundary
            e = row["end"]
            top = float(t[a - 1])
            tot = float(sum(x for x in t if x > 0))
            cases += [("inside", lambda lo, hi: lo, None, e[0], "0"), ("outside", lambda lo, hi: lo, None, e[1], "0"),
                      ("ratio", lambda lo, hi: lo + 0.5, lambda lo, hi: lo, e[2], "0"),
                      ("inside", lambda lo, hi: hi, None, e[3], "max"), ("outside", lambda lo, hi: hi, None, e[4], "max"),
                      ("ratio", lambda lo, hi: lo + 0.5, lambda lo, hi: hi, e[5], "max")]
            for scheme, d1, d2, want, label in cases:
                n += 1
                for kind, obj in (("reused", long_lived[scheme]), ("fresh", fresh_cls[scheme]())):
                    try:
                        got, calls = select(obj, d1, d2)
                    except Exception as ex:
                        fails.append(dict(what="%s lifting raised" % scheme, table=t, active=a, draw=label, err=repr(ex)))
                        continue
                    if got != want:
                        fails.append(dict(what="%s lifting selects another unit than Lifting.tla (%s object)" % (scheme, kind),
                                          table=t, active=a, draw=label, got=got, want=want))
                    # the draw ranges are part of the contract: uniform(0, rate of active) and uniform(0, sum |negative|)
                    exp = [(0.0, top)] + ([(0.0, tot)] if scheme == "ratio" else [])
                    if calls != exp:
                        fails.append(dict(what="%s lifting draws uniform%s instead of uniform%s (%s object)"
                                          % (scheme, calls, exp, kind), table=t, active=a, draw=label))
            if len(fails) > 30:
                break
    finally:
        random.uniform = _real_uniform
    json.dump(dict(evaluations=n, fails=fails[:30]), sys.stdout)


def walker(path):
    tab = json.load(open(path))
    fails, n = [], 0
    state = {}
    def choice(seq):
        state["rows"] = len(seq)
        return seq[state["row"]]
    random.choice = choice
    random.uniform = lambda a, b: state["w"]
    try:
        for ent in tab["vectors"]:
            v, mean = ent["v"], ent["mean"]
            nn = len(v)
            for scale in (1.0, 2.0 ** -20, 2.0 ** 20):
                items = [WalkerItem(("cell", i), float(nn * r) * scale) for i, r in enumerate(v, start=1)]
                try:
                    wk = Walker(items)
                except Exception as ex:
                    fails.append(dict(what="Walker constructor raised", v=v, err=repr(ex)))
                    continue
                if wk.total_rate != float(ent["total"]) * scale:
                    fails.append(dict(what="Walker.total_rate", v=v, got=wk.total_rate, want=ent["total"] * scale))
                state["row"], state["w"] = 0, 0.5 * scale
                wk.sample_cell()                                   # learn the number of table rows from the first draw
                rows = state["rows"]
                mass = [0] * nn
                zero_hit = []
                for r in range(rows):
                    for j in range(mean):
                        state["row"], state["w"] = r, (j + 0.5) * scale
                        n += 1
                        got = wk.sample_cell()
                        mass[got[1] - 1] += 1
                        if v[got[1] - 1] == 0:
                            zero_hit.append((r, j))
                if wk.total_rate != float(ent["total"]) * scale:
                    fails.append(dict(what="Walker.total_rate after cells were sampled", v=v, got=wk.total_rate,
                                      want=ent["total"] * scale))
                # probability of cell c = mass[c] / (rows * mean); the model (CellProbability) says n*rate[c] / (n * mean)
                if rows != nn or mass != ent["mass"]:
                    fails.append(dict(what="Walker cell probabilities differ from Walker.tla", v=v, scale=scale, rows=rows,
                                      got=mass, want=ent["mass"]))
                if zero_hit:
                    fails.append(dict(what="Walker selects a zero-rate cell at an interior draw", v=v, at=zero_hit[:3]))
                if scale == 1.0:
                    for r in range(rows):
                        state["row"], state["w"] = r, 0.0
                        got = wk.sample_cell()
                        if v[got[1] - 1] == 0 and not any(f["what"].startswith("endpoint") for f in fails):
                            fails.append(dict(what="endpoint: Walker selects a zero-rate cell when the second draw is exactly 0.0",
                                              v=v, row=r))
            if len(fails) > 30:
                break
    finally:
        random.choice, random.uniform = _real_choice, _real_uniform
    json.dump(dict(evaluations=n, fails=fails[:30]), sys.stdout)


class Draws:
    """random.uniform replaced by planned quantiles: plan = [(j, n), ...] -> lo + (j + 1/2) / n * (hi - lo); j = "lo" /
    "hi" give the end points.  Calls beyond the plan repeat its last entry."""

    def __init__(self):
        self.plan, self.i = [], 0

    def set(self, *plan):
        self.plan, self.i = list(plan), 0

    def __call__(self, lo, hi):
        j, n = self.plan[min(self.i, len(self.plan) - 1)]
        self.i += 1
        if j == "lo":
            return lo
        if j == "hi":
            return hi
        if hi - lo == n:
            return lo + (j + 0.5)
        unit = (hi - lo) / n
        if unit * n == hi - lo:
            return lo + (j + 0.5) * unit          # exact when the range is n times a power of two
        return lo + (j + 0.5) / n * (hi - lo)


def _plans(scheme, t, a):
    """(plans of the interior draws, plan of lower end, plan of upper end) for active unit a of table t."""
    pos = sum(x for x in t if x > 0)
    if scheme == "ratio":
        mid = (0, 1)
        return [[mid, (j, pos)] for j in range(pos)], [mid, ("lo", 1)], [mid, ("hi", 1)]
    n = t[a - 1]
    return [[(j, n)] for j in range(n)], [("lo", 1)], [("hi", 1)]


def flows(path, out):
    tab = json.load(open(path))
    model = {}
    for row in tab["rows"]:
        model.setdefault(tuple(row["t"]), {})[row["a"]] = row
    long_lived = {"inside": InsideFirstLifting(), "outside": OutsideFirstLifting(), "ratio": RatioLifting()}
    fresh_cls = {"inside": InsideFirstLifting, "outside": OutsideFirstLifting, "ratio": RatioLifting}
    draws = Draws()
    random.uniform = draws
    n, differs = 0, []
    try:
        with open(out, "w") as fh:
            for t, rows in model.items():
              # the table as it is, and scaled by powers of two (exact): the choice may depend on the table and the draw only,
              # not on the absolute magnitude of the derivatives
              for scale in (1.0, 2.0 ** -47, 2.0 ** 30):
                for scheme in ("inside", "outside", "ratio"):
                    for kind in ("reused", "fresh") if scale == 1.0 else ("reused",):
                        sel, ends = [], []
                        for a in sorted(rows):
                            def select(plan):
                                obj = long_lived[scheme] if kind == "reused" else fresh_cls[scheme]()
                                draws.set(*plan)
                                obj.reset()
                                for i, rate in enumerate(t, start=1):
                                    obj.insert(float(rate) * scale, ("unit", i), i == a)
                                return obj.get_active_identifier()[1]
                            interior, lo, hi = _plans(scheme, t, a)
                            got = [select(p) for p in interior]
                            n += len(got) + 2
                            sel.append([a, got])
                            ends.append([a, select(lo), select(hi)])
                            want = ([io[0 if scheme == "inside" else 1] for io in rows[a]["io"]] if scheme != "ratio"
                                    else rows[a]["ra"])
                            if scale == 1.0 and got != want and len(differs) < 5:
                                differs.append(dict(scheme=scheme, kind=kind, t=list(t), a=a, got=got, model=want))
                        fh.write(json.dumps(dict(scheme=scheme, who="%s lifting class, %s object, derivatives scaled by %g"
                                                 % (scheme, kind, scale), t=list(t), sel=sel, ends=ends)) + "\n")
    finally:
        random.uniform = _real_uniform
    json.dump(dict(evaluations=n, differs=differs), open(out + ".notes.json", "w"))


def handler(count, out):
    """Scripted pair derivatives M[i][j] (point mass i of object 0 moving against point mass j of object 1; the reverse
    pair has the opposite sign), so the factor derivatives are q(0, i) = sum_j M[i][j], q(1, j) = -sum_i M[i][j]."""
    import itertools
    import jellyfysh.setting as setting
    from jellyfysh.base.node import Node
    from jellyfysh.base.time import Time
    from jellyfysh.base.unit import Unit
    from jellyfysh.setting import hypercubic_setting
    from jellyfysh.event_handler.two_composite_object_summed_bounding_potential_event_handler import \
        TwoCompositeObjectSummedBoundingPotentialEventHandler as Handler

    class Pot:
        number_separation_arguments = 1
        number_charge_arguments = 2
        potential_change_required = True
        M = None

        def derivative(self, velocity, separation, c1, c2):
            i, j = int(c1), int(c2)
            return float(self.M[i][j - 10]) if i < 10 else -float(self.M[j][i - 10])

    class Bound(Pot):
        def derivative(self, velocity, separation, c1, c2):
            return 1000.0

        def displacement(self, velocity, separation, c1, c2, potential_change):
            return 0.0

    count = int(count)
    rng = random.Random(5)
    draws = Draws()
    n = 0
    fh = open(out, "w")
    for size in (2, 3):
        hypercubic_setting.HypercubicSetting(beta=1.0, dimension=3, system_length=20.0)
        setting.set_number_of_root_nodes(2)
        setting.set_number_of_nodes_per_root_node(size)
        setting.set_number_of_node_levels(2)
        mats = list(itertools.product((-1, 0, 1), repeat=size * size))
        if len(mats) > count:
            mats = [mats[i] for i in sorted(rng.sample(range(len(mats)), count))]
        pot = Pot()
        units = [(m, k) for m in range(2) for k in range(size)]

        def in_state(active):
            branches = []
            for m in range(2):
                local = m == active[0]
                root = Node(Unit(identifier=(m,), position=[5.0 + 3 * m, 5.0, 5.0],
                                 velocity=[1.0 / size, 0.0, 0.0] if local else None,
                                 time_stamp=Time.from_float(0.0) if local else None), weight=1)
                for k in range(size):
                    act = (m, k) == active
                    root.add_child(Node(Unit(identifier=(m, k), position=[5.0 + 3 * m + 0.1 * k, 5.0 + 0.2 * k, 5.0],
                                             charge={"q": float(10 * m + k)}, velocity=[1.0, 0.0, 0.0] if act else None,
                                             time_stamp=Time.from_float(0.0) if act else None), weight=1.0 / size))
                branches.append(root)
            return branches

        handlers = {(s, "summed"): Handler(potential=pot, bounding_potential=Bound(), lifting=c(), charge="q")
                    for s, c in (("inside", InsideFirstLifting), ("outside", OutsideFirstLifting), ("ratio", RatioLifting))}
        # the same table is filled by the composite-object cell-veto handler when a cell-veto event is confirmed
        from jellyfysh.event_handler.composite_object_cell_veto_event_handler import CompositeObjectCellVetoEventHandler
        from jellyfysh.activator.internal_state.cell_occupancy.cells.cuboid_periodic_cells import CuboidPeriodicCells

        class Est:
            potential = pot

            def derivative_bound(self, lower_corner, upper_corner, direction, calculate_lower_bound=False):
                return (1000.0, -1000.0) if calculate_lower_bound else 1000.0

            def charge_correction_factor(self, *charges):
                return 1.0
        cells = CuboidPeriodicCells(cells_per_side=[4, 4, 4], neighbor_layers=1)
        with open(os.devnull, "w") as devnull, contextlib.redirect_stdout(devnull):
            for sname, c in (("inside", InsideFirstLifting), ("outside", OutsideFirstLifting), ("ratio", RatioLifting)):
                hv = CompositeObjectCellVetoEventHandler(estimator=Est(), lifting=c(), charge="q")
                hv.initialize(cells, 1)
                handlers[(sname, "cell-veto")] = hv
        real_exp = random.expovariate
        random.uniform, random.expovariate = draws, (lambda beta: 1.0)
        try:
            for flat in mats:
                M = [list(flat[i * size:(i + 1) * size]) for i in range(size)]
                pot.M = M
                t = [sum(M[i]) for i in range(size)] + [-sum(M[i][j] for i in range(size)) for j in range(size)]
                if not any(x > 0 for x in t):
                    continue
                for (scheme, hkind), h in handlers.items():
                    if hkind == "cell-veto" and (mats.index(flat) % 3):
                        continue                                      # every third matrix through the cell-veto handler
                    sel, ends = [], []
                    for a, x in enumerate(t, start=1):
                        if x <= 0:
                            continue

                        def select(plan):
                            branches = in_state(units[a - 1])
                            if hkind == "summed":
                                draws.set(("lo", 1), *plan)       # first draw: the confirmation (lower end: confirmed)
                                h.send_event_time(branches)
                                outs = h.send_out_state()
                            else:
                                draws.set(("lo", 1), ("lo", 1), *plan)      # Walker's second draw, then the confirmation
                                m = units[a - 1][0]
                                h.send_event_time([branches[m]])
                                outs = h.send_out_state(branches[1 - m])
                            moving = [c.value.identifier for r in outs for c in r.children if c.value.velocity is not None]
                            assert len(moving) == 1, moving
                            return units.index(moving[0]) + 1
                        interior, lo, hi = _plans(scheme, t, a)
                        got = [select(p) for p in interior]
                        n += len(got) + 2
                        sel.append([a, got])
                        ends.append([a, select(lo), select(hi)])
                    fh.write(json.dumps(dict(scheme=scheme, who="composite-object %s handler, %d+%d point masses, pair "
                                             "derivatives %s" % (hkind, size, size, M), t=t, sel=sel, ends=ends)) + "\n")
        finally:
            random.uniform, random.expovariate = _real_uniform, real_exp
            setting.reset()
    fh.close()
    json.dump(dict(evaluations=n, differs=[]), open(out + ".notes.json", "w"))


def veto(path, limit):
    """The cell-veto handler around the alias table: the real LeafUnitCellVetoEventHandler on a ring of six cells (three
    non-nearby offsets), the estimator scripted so that the stored upper / lower bounds are two rate vectors of Walker.tla
    (a non-positive bound where the vector has a zero).  For both signs of the charge factor, two active cells and every
    (row, draw): per-offset masses as in Walker.tla, target = active cell + offset on the ring, confirmation bound = the
    bound stored for that offset, proposal time = draw / (total * |factor| * speed)."""
    import jellyfysh.setting as setting
    from jellyfysh.base.node import Node
    from jellyfysh.base.time import Time
    from jellyfysh.base.unit import Unit
    from jellyfysh.setting import hypercubic_setting
    from jellyfysh.event_handler.leaf_unit_cell_veto_event_handler import LeafUnitCellVetoEventHandler
    from jellyfysh.activator.internal_state.cell_occupancy.cells.cuboid_periodic_cells import CuboidPeriodicCells
    tab = json.load(open(path))
    vecs = [e for e in tab["vectors"] if len(e["v"]) == 3]
    by_v = {tuple(e["v"]): e for e in vecs}
    rng = random.Random(11)
    pairs = [(a["v"], b["v"]) for a in vecs for b in vecs]
    rng.shuffle(pairs)
    pairs = pairs[:int(limit)]
    setting.reset()
    hypercubic_setting.HypercubicSetting(beta=1.0, dimension=1, system_length=6.0)
    setting.set_number_of_root_nodes(2)
    setting.set_number_of_nodes_per_root_node(1)
    setting.set_number_of_node_levels(1)
    cells = CuboidPeriodicCells(cells_per_side=[6], neighbor_layers=1)
    cl = list(cells.yield_cells())
    cid = {c: i for i, c in enumerate(cl)}
    far = [2, 3, 4]                                     # offsets (and cells relative to cell 0) that are not nearby
    fails, n = [], 0
    state = {}

    class Pot:
        number_separation_arguments = 1
        number_charge_arguments = 2

    class Est:
        potential = Pot()
        up, low = None, None

        def derivative_bound(self, lower_corner, upper_corner, direction, calculate_lower_bound=False):
            c = int(round(lower_corner[0])) + 1            # the cell whose extent minus the zero cell's gives these corners
            return (self.up[c], self.low[c]) if calculate_lower_bound else self.up[c]

        def charge_correction_factor(self, active_charge, *rest):
            return active_charge

    def choice(seq):
        state["rows"] = len(seq)
        return seq[state["row"]]
    real_exp = random.expovariate
    random.choice, random.uniform, random.expovariate = choice, (lambda a, b: state["w"]), (lambda beta: 1.0)
    try:
        for v_up, v_low in pairs:
            est = Est()
            est.up = {c: (3.0 * v_up[i] if v_up[i] > 0 else -1.0) for i, c in enumerate(far)}
            est.low = {c: (-3.0 * v_low[i] if v_low[i] > 0 else 1.0) for i, c in enumerate(far)}
            with open(os.devnull, "w") as devnull, contextlib.redirect_stdout(devnull):
                h = LeafUnitCellVetoEventHandler(estimator=est, charge="q")
                h.initialize(cells, 1)
            for cf in (1.0, -2.0):
                v = v_up if cf > 0 else v_low
                ent = by_v[tuple(v)]
                if ent["total"] == 0:
                    continue
                stored = {c: 3.0 * v[i] for i, c in enumerate(far)}
                for a in (0, 4):
                    mass = [0] * 3

                    def propose():
                        root = Node(Unit((0,), [a + 0.5], {"q": cf}, [2.0], Time.from_float(0.0)))
                        t, target = h.send_event_time([root])
                        return t, cid[target[0]]
                    state["row"], state["w"] = 0, 0.5
                    propose()
                    bad = None
                    for r in range(state["rows"]):
                        for j in range(ent["mean"]):
                            state["row"], state["w"] = r, j + 0.5
                            n += 1
                            t, tc = propose()
                            off = (tc - a) % 6
                            if off not in far:
                                bad = "target cell %d is not at a non-nearby offset from the active cell %d" % (tc, a)
                                break
                            mass[far.index(off)] += 1
                            if h._bounding_event_rate != stored[off] * abs(cf):
                                bad = ("confirmation bound %r is not the bound %r stored for the sampled offset %d (times the "
                                       "charge factor)" % (h._bounding_event_rate, stored[off] * abs(cf), off))
                                break
                            want_dt = 1.0 / (float(ent["total"]) * abs(cf) * 2.0)
                            if abs((t - Time.from_float(0.0)) - want_dt) > 1e-12 * want_dt:
                                bad = "proposal time %r instead of draw / (total * |factor| * speed) = %r" % (t - Time.from_float(0.0), want_dt)
                                break
                        if bad:
                            break
                    if not bad and (state["rows"] != 3 or mass != ent["mass"]):
                        bad = "per-offset proposal masses %s differ from Walker.tla's %s" % (mass, ent["mass"])
                    if bad:
                        fails.append(dict(what="cell-veto handler: " + bad.split(" %")[0][:60], detail=bad, upper=v_up, lower=v_low,
                                          charge_factor=cf, active_cell=a))
            if len(fails) > 10:
                break
    finally:
        random.choice, random.uniform, random.expovariate = _real_choice, _real_uniform, real_exp
        setting.reset()
    # the composite-object variant: whatever the estimator says about the *target's* charges, the event is confirmed against
    # the bound that was stored for the sampled offset when the event was proposed (times the factor of the active unit)
    try:
        n += _composite_confirmation(fails)
    finally:
        random.choice, random.uniform, random.expovariate = _real_choice, _real_uniform, real_exp
        setting.reset()
    json.dump(dict(evaluations=n, fails=fails[:10]), sys.stdout)


def _composite_confirmation(fails):
    import jellyfysh.setting as setting
    from jellyfysh.base.node import Node
    from jellyfysh.base.time import Time
    from jellyfysh.base.unit import Unit
    from jellyfysh.setting import hypercubic_setting
    from jellyfysh.event_handler.composite_object_cell_veto_event_handler import CompositeObjectCellVetoEventHandler
    from jellyfysh.activator.internal_state.cell_occupancy.cells.cuboid_periodic_cells import CuboidPeriodicCells
    setting.reset()
    hypercubic_setting.HypercubicSetting(beta=1.0, dimension=3, system_length=20.0)
    setting.set_number_of_root_nodes(2)
    setting.set_number_of_nodes_per_root_node(2)
    setting.set_number_of_node_levels(2)

    class Pot:
        number_separation_arguments = 1
        number_charge_arguments = 2

        def derivative(self, velocity, separation, c1, c2):
            return 1.0 if c2 > c1 else -0.25            # the active unit is pushed by every unit of the other object

    class Est:
        potential = Pot()

        def derivative_bound(self, lower_corner, upper_corner, direction, calculate_lower_bound=False):
            return (8.0, -8.0) if calculate_lower_bound else 8.0

        def charge_correction_factor(self, active_charges, target_charges=None):
            return 1.0 if target_charges is None else 0.5    # a factor that depends on the target exists, but is not to be used

    cells = CuboidPeriodicCells(cells_per_side=[4, 4, 4], neighbor_layers=1)
    calls = []

    def uniform(a, b):
        calls.append((a, b))
        return a
    random.uniform, random.expovariate = uniform, (lambda beta: 1.0)
    count = 0
    from jellyfysh.lifting.inside_first_lifting import InsideFirstLifting
    with open(os.devnull, "w") as devnull, contextlib.redirect_stdout(devnull):
        h = CompositeObjectCellVetoEventHandler(estimator=Est(), lifting=InsideFirstLifting(), charge="q")
        h.initialize(cells, 1)
    for k in range(20):
        def branch(m, active):
            root = Node(Unit((m,), [2.5 + 10 * m, 2.5, 2.5], velocity=[0.5, 0.0, 0.0] if active else None,
                             time_stamp=Time.from_float(0.0) if active else None), weight=1)
            for j in range(2):
                act = active and j == 0
                root.add_child(Node(Unit((m, j), [2.5 + 10 * m + 0.1 * j, 2.5, 2.5 + 0.01 * k], charge={"q": float(10 * m + j + 1)},
                                         velocity=[1.0, 0.0, 0.0] if act else None,
                                         time_stamp=Time.from_float(0.0) if act else None), weight=0.5))
            return root
        del calls[:]
        h.send_event_time([branch(0, True)])
        stored = h._bounding_event_rate
        before = len(calls)
        h.send_out_state(branch(1, False))
        count += 1
        confirm = calls[before] if len(calls) > before else None
        if confirm is None or confirm[1] != stored:
            fails.append(dict(what="cell-veto handler: composite-object event not confirmed against the stored bound",
                              detail="confirmation draw over %r, bound stored for the sampled offset: %r" % (confirm, stored)))
            break
    return count


if __name__ == "__main__":
    {"table": table, "walker": walker, "flows": flows, "handler": handler, "veto": veto}[sys.argv[1]](*sys.argv[2:])
