"""C05 / C18 drivers (scratch copy).

  table <lifting-table.json>         : every (scheme, table, active, draw) of Lifting.tla on the real lifting classes
  walker <walker-table.json>         : every rate vector of Walker.tla on the real Walker
"""
import json
import random
import sys

from harness.build import assert_scratch_import

assert_scratch_import()
from jellyfysh.lifting.inside_first_lifting import InsideFirstLifting  # noqa: E402
from jellyfysh.lifting.outside_first_lifting import OutsideFirstLifting  # noqa: E402
from jellyfysh.lifting.ratio_lifting import RatioLifting  # noqa: E402
from jellyfysh.event_handler.walker import Walker, WalkerItem  # noqa: E402

_real_uniform = random.uniform
_real_choice = random.choice


class Script:
    """Scripted replacement of random.uniform / random.choice (the model's draws)."""

    def __init__(self):
        self.frac = {}        # (a, b) -> value to return;  or a callable
        self.calls = []

    def uniform(self, a, b):
        self.calls.append((a, b))
        return self.next_uniform(a, b)


def table(path):
    tab = json.load(open(path))
    fails, n = [], 0
    long_lived = {"inside": InsideFirstLifting(), "outside": OutsideFirstLifting(), "ratio": RatioLifting()}
    fresh_cls = {"inside": InsideFirstLifting, "outside": OutsideFirstLifting, "ratio": RatioLifting}
    draws = {}

    def uniform(a, b):
        draws["calls"].append((a, b))
        return draws["queue"].pop(0)(a, b)
    random.uniform = uniform
    try:
        for row in tab["rows"]:
            t, a = row["t"], row["a"]

            def select(obj, first, second=None):
                draws["calls"] = []
                draws["queue"] = [first] + ([second] if second else [])
                obj.reset()
                for i, rate in enumerate(t, start=1):
                    obj.insert(float(rate), ("unit", i), i == a)
                got = obj.get_active_identifier()
                return got[1], list(draws["calls"])

            cases = []
            for j, (ins, outs) in enumerate(row["io"]):
                u = j + 0.5
                cases.append(("inside", lambda lo, hi, u=u: lo + u, None, ins, u))
                cases.append(("outside", lambda lo, hi, u=u: lo + u, None, outs, u))
            for j, sel in enumerate(row["ra"]):
                w = j + 0.5
                cases.append(("ratio", lambda lo, hi: lo + 0.5, lambda lo, hi, w=w: lo + w, sel, w))
            # end points: the draw sits exactly on an interval boundary
            e = row["end"]
            top = float(t[a - 1])
            tot = float(sum(x for x in t if x > 0))
            cases += [("inside", lambda lo, hi: lo, None, e[0], "0"), ("outside", lambda lo, hi: lo, None, e[1], "0"),
                      ("ratio", lambda lo, hi: lo + 0.5, lambda lo, hi: lo, e[2], "0"),
                      ("inside", lambda lo, hi: hi, None, e[3], "max"), ("outside", lambda lo, hi: hi, None, e[4], "max"),
                      ("ratio", lambda lo, hi: lo + 0.5, lambda lo, hi: hi, e[5], "max")]
            for scheme, d1, d2, want, label in cases:
                n += 1
                for kind, obj in (("reused", long_lived[scheme]), ("fresh", fresh_cls[scheme]())):
                    try:
                        got, calls = select(obj, d1, d2)
                    except Exception as ex:
                        fails.append(dict(what="%s lifting raised" % scheme, table=t, active=a, draw=label, err=repr(ex)))
                        continue
                    if got != want:
                        fails.append(dict(what="%s lifting selects another unit than Lifting.tla (%s object)" % (scheme, kind),
                                          table=t, active=a, draw=label, got=got, want=want))
                    # the draw ranges are part of the contract: uniform(0, rate of active) and uniform(0, sum |negative|)
                    exp = [(0.0, top)] + ([(0.0, tot)] if scheme == "ratio" else [])
                    if calls != exp:
                        fails.append(dict(what="%s lifting draws uniform%s instead of uniform%s (%s object)"
                                          % (scheme, calls, exp, kind), table=t, active=a, draw=label))
            if len(fails) > 30:
                break
    finally:
        random.uniform = _real_uniform
    json.dump(dict(evaluations=n, fails=fails[:30]), sys.stdout)


def walker(path):
    tab = json.load(open(path))
    fails, n = [], 0
    state = {}
    random.choice = lambda seq: seq[state["row"]]
    random.uniform = lambda a, b: state["w"]
    try:
        for ent in tab["vectors"]:
            v, mean = ent["v"], ent["mean"]
            nn = len(v)
            for scale in (1.0, 2.0 ** -20, 2.0 ** 20):
                items = [WalkerItem(("cell", i), float(nn * r) * scale) for i, r in enumerate(v, start=1)]
                try:
                    wk = Walker(items)
                except Exception as ex:
                    fails.append(dict(what="Walker constructor raised", v=v, err=repr(ex)))
                    continue
                if wk.total_rate != float(ent["total"]) * scale:
                    fails.append(dict(what="Walker.total_rate", v=v, got=wk.total_rate, want=ent["total"] * scale))
                rows = len(wk._table)
                mass = [0] * nn
                zero_hit = []
                for r in range(rows):
                    for j in range(mean):
                        state["row"], state["w"] = r, (j + 0.5) * scale
                        n += 1
                        got = wk.sample_cell()
                        mass[got[1] - 1] += 1
                        if v[got[1] - 1] == 0:
                            zero_hit.append((r, j))
                # probability of cell c = mass[c] / (rows * mean); the model (CellProbability) says n*rate[c] / (n * mean)
                if rows != nn or mass != ent["mass"]:
                    fails.append(dict(what="Walker cell probabilities differ from Walker.tla", v=v, scale=scale, rows=rows,
                                      got=mass, want=ent["mass"]))
                if zero_hit:
                    fails.append(dict(what="Walker selects a zero-rate cell at an interior draw", v=v, at=zero_hit[:3]))
                if scale == 1.0:
                    for r in range(rows):
                        state["row"], state["w"] = r, 0.0
                        got = wk.sample_cell()
                        if v[got[1] - 1] == 0 and not any(f["what"].startswith("endpoint") for f in fails):
                            fails.append(dict(what="endpoint: Walker selects a zero-rate cell when the second draw is exactly 0.0",
                                              v=v, row=r))
            if len(fails) > 30:
                break
    finally:
        random.choice, random.uniform = _real_choice, _real_uniform
    json.dump(dict(evaluations=n, fails=fails[:30]), sys.stdout)


if __name__ == "__main__":
    {"table": table, "walker": walker}[sys.argv[1]](sys.argv[2])
