"""C15 driver (scratch copy).  table <table.json> | trace <seed> <n> <out.ndjson>"""
import json
import math
import random
import sys
from fractions import Fraction

from harness.build import assert_scratch_import
from harness.f64 import fkey, pred, succ

assert_scratch_import()
import jellyfysh.setting as setting  # noqa: E402
from jellyfysh.setting.hypercubic_setting import HypercubicSetting  # noqa: E402
from jellyfysh.setting.hypercuboid_setting import HypercuboidSetting  # noqa: E402


def cubic(length, dim=3):
    setting.reset()
    HypercubicSetting(beta=1.0, dimension=dim, system_length=length)
    return setting.periodic_boundaries


def cuboid(lengths):
    setting.reset()
    HypercuboidSetting(beta=1.0, dimension=len(lengths), system_lengths=list(lengths))
    return setting.periodic_boundaries


def table(path):
    tab = json.load(open(path))
    fails, n = [], 0
    lengths = sorted({row[0] for row in tab["pos"]})
    for mode in ("cubic", "cuboid"):
        for li, L in enumerate(lengths):
            if mode == "cubic":
                pb, idx, dim = cubic(L / 8.0), 0, 3
            else:
                others = [x / 8.0 for x in lengths if x != L]
                lens = [others[0], L / 8.0, others[1]]
                pb, idx, dim = cuboid(lens), 1, 3
            for l, p, want in tab["pos"]:
                if l != L:
                    continue
                n += 2
                got = pb.correct_position_entry(p / 8.0, idx)
                vec = [0.25, 0.25, 0.25]
                vec[idx] = p / 8.0
                pb.correct_position(vec)
                if got != want / 8.0 or vec[idx] != want / 8.0:
                    fails.append(dict(what=mode + " correct_position", L=L, arg=p, got=[got, vec[idx]], want=want / 8.0))
            # positions: one repeated value in all components (each direction has its own box length), in one long-lived list
            pos_want = {(l, p_): w for l, p_, w in tab["pos"]}
            lens8p = [L, L, L] if mode == "cubic" else [int(round(x * 8)) for x in lens]
            vec3 = [0.0] * dim
            for l, p_, _w in tab["pos"]:
                if l != L or any((lens8p[j], p_) not in pos_want for j in range(dim)):
                    continue
                n += 1
                for j in range(dim):
                    vec3[j] = p_ / 8.0
                pb.correct_position(vec3)
                wantv = [pos_want[(lens8p[j], p_)] / 8.0 for j in range(dim)]
                if vec3 != wantv:
                    fails.append(dict(what=mode + " correct_position of a vector with one repeated value", L=L, arg=p_,
                                      got=list(vec3), want=wantv))
            # separations: all three components carry lattice values (the other two from rows of their own box length), the
            # reference / target lists are long-lived objects updated in place, and must come back unchanged
            lens8 = [L, L, L] if mode == "cubic" else [int(round(x * 8)) for x in lens]
            by_len = {}
            for l, s_, want in tab["sep"]:
                by_len.setdefault(l, []).append((s_, want))
            ref = [0.125] * dim
            tgt = [0.125] * dim
            inplace = [0.0] * dim
            for k, (s_, want) in enumerate(by_len.get(L, [])):
                n += 2
                got = pb.correct_separation_entry(s_ / 8.0, idx)
                wants = [None] * dim
                for j in range(dim):
                    if j == idx:
                        sj, wj = s_, want
                    else:
                        rows_j = by_len[lens8[j]]
                        sj, wj = rows_j[(7 * k + 3 * j) % len(rows_j)]
                    tgt[j] = 0.125 + sj / 8.0
                    inplace[j] = sj / 8.0
                    wants[j] = wj / 8.0
                before = (list(ref), list(tgt))
                sv = pb.separation_vector(ref, tgt)
                pb.correct_separation(inplace)
                if got != want / 8.0 or list(sv) != wants or inplace != wants:
                    fails.append(dict(what=mode + " separation", L=L, arg=[round((t - 0.125) * 8) for t in tgt],
                                      got=[got, list(sv), list(inplace)], want=wants))
                # the same separation alone (the other components zero): no other component may trigger or hide a correction
                solo_t = [0.125] * dim
                solo_t[idx] = 0.125 + s_ / 8.0
                sv1 = pb.separation_vector([0.125] * dim, solo_t)
                n += 1
                if sv1[idx] != want / 8.0 or any(sv1[j] != 0.0 for j in range(dim) if j != idx):
                    fails.append(dict(what=mode + " separation (single component)", L=L, arg=s_, got=list(sv1), want=want / 8.0))
                if (list(ref), list(tgt)) != before:
                    fails.append(dict(what=mode + " separation_vector changed its arguments", L=L, arg=s_, got=[ref, tgt], want=before))
                    ref, tgt = list(before[0]), list(before[1])
            if pb.next_image(0.375, idx) != 0.375 + L / 8.0:
                fails.append(dict(what=mode + " next_image", L=L))
    setting.reset()
    json.dump(dict(evaluations=n, fails=fails[:20]), sys.stdout)


def trace(seed, n, path):
    rnd = random.Random(seed)
    out = open(path, "w")
    for L in (1.0, 10.0, 12.836, 0.1, 7.3, 3.0, 1e-3, 2.0 ** 20 + 0.5):
        pc = cubic(L)
        f_pos_c, f_sep_c = pc.correct_position_entry, pc.correct_separation_entry
        xs = [-5e-324, -1e-300, -1e-17, -2.0 ** -60 * L, -0.0, 0.0, 5e-324, succ(0.0), L / 2, pred(L / 2), succ(L / 2),
              pred(L), L, succ(L), 2 * L, pred(2 * L), -L, pred(-L), succ(-L), -L / 2, 3 * L - math.ulp(3 * L), 1e6 * L,
              -1e6 * L, 1e15 * L + L / 3, -1e15 * L - L / 3, L / 3, -L / 3, 17.25 * L, -17.25 * L]
        xs += [k * L + e for k in (-45, -9, -3, -1, 1, 2, 5, 7, 13, 31) for e in (-math.ulp(k * L), math.ulp(k * L))]
        xs += [rnd.uniform(-4 * L, 4 * L) for _ in range(n)] + [rnd.uniform(-1, 1) * L * 10.0 ** rnd.randint(-18, 12)
                                                               for _ in range(n)]
        cub_results = []
        for x in xs:
            o = f_pos_c(x, 0)
            s = f_sep_c(x, 0)
            vec = [x, L / 4, x]                      # the in-place vector versions, on the same input
            pc.correct_position(vec)
            svec = [x, 0.0, x]
            pc.correct_separation(svec)
            cub_results.append((x, o, f_pos_c(o, 0), s, vec[0] if vec[0] == vec[2] or vec[0] != vec[0] else float("nan"),
                                svec[0] if svec[0] == svec[2] or svec[0] != svec[0] else float("nan")))
        pq = cuboid([L, L, L])
        for x, o, again, s, vec0, svec0 in cub_results:
            o2 = pq.correct_position_entry(x, 2)
            s2 = pq.correct_separation_entry(x, 1)
            Lf, xf = Fraction(L), Fraction(x)
            exact = xf - (xf // Lf) * Lf
            d = abs(Fraction(o) - exact)
            d = min(d, Lf - d) if d <= Lf else d
            res = min(10 ** 6, int(math.ceil(d / Fraction(math.ulp(L)))))
            qvec = [x, x, x]
            pq.correct_position(qvec)
            out.write(json.dumps(dict(op="pos", L=fkey(L), x=fkey(x), out=fkey(o), again=fkey(again), cuboid=fkey(o2),
                                      vec=fkey(vec0), qvec=fkey(qvec[0] if qvec[0] == qvec[1] == qvec[2] else float("nan")),
                                      res=res, xs=repr(x), Ls=repr(L))) + "\n")
            es = xf + Lf / 2
            es = es - (es // Lf) * Lf - Lf / 2
            d = abs(Fraction(s) - es)
            d = min(d, abs(Lf - d))
            # the implementation rounds s + L/2 once (magnitude |s| + L/2), then stays at magnitude L
            res = min(10 ** 6, int(math.ceil(d / Fraction(math.ulp(abs(x) + L)))))
            out.write(json.dumps(dict(op="sep", L=fkey(L), x=fkey(x), out=fkey(s), cuboid=fkey(s2), half=fkey(L / 2), vec=fkey(svec0),
                                      mhalf=fkey(-(L / 2)), res=res, xs=repr(x), Ls=repr(L))) + "\n")
    setting.reset()
    out.close()


if __name__ == "__main__":
    if sys.argv[1] == "table":
        table(sys.argv[2])
    else:
        trace(int(sys.argv[2]), int(sys.argv[3]), sys.argv[4])
