"""Order-preserving keys of doubles for F64.tla, and exact helpers (Fractions) for measured residuals."""
import math
import struct
from fractions import Fraction

NAN = [-1, -1, -1]


def key64(x):
    # everything is decided on the bit pattern: the process under test may run with denormals flushed to zero, in which case
    # float comparisons and float -> Fraction conversions of the harness itself would be blind to denormals
    b = struct.unpack("<Q", struct.pack("<d", x))[0]
    if (b >> 52) & 0x7FF == 0x7FF and b & ((1 << 52) - 1):
        return None                         # NaN
    if b == 0x8000000000000000:
        b = 0                               # -0.0 -> +0.0
    return b ^ 0xFFFFFFFFFFFFFFFF if b >> 63 else b | 0x8000000000000000


def fkey(x):
    k = key64(float(x))
    if k is None:
        return list(NAN)
    return [k >> 43, (k >> 22) & 0x1FFFFF, k & 0x3FFFFF]


def unkey(limbs):
    if limbs == NAN:
        return float("nan")
    k = (limbs[0] << 43) | (limbs[1] << 22) | limbs[2]
    b = k ^ 0x8000000000000000 if k >> 63 else k ^ 0xFFFFFFFFFFFFFFFF
    return struct.unpack("<d", struct.pack("<Q", b))[0]


def tkey(t):
    """Key of a jellyfysh Time."""
    return [fkey(t.quotient), fkey(t.remainder)]


def ulp(x):
    return math.ulp(x)


def exact(x):
    """The exact value of a finite double as a Fraction, from its bit pattern (no floating-point operation involved)."""
    b = struct.unpack("<Q", struct.pack("<d", x))[0]
    sign = -1 if b >> 63 else 1
    e = (b >> 52) & 0x7FF
    m = b & ((1 << 52) - 1)
    if e == 0x7FF:
        raise OverflowError("not finite")
    if e == 0:
        return Fraction(sign * m, 2 ** 1074)
    return Fraction(sign * ((1 << 52) | m)) * Fraction(2) ** (e - 1075)


def ulp_exact(v):
    """Spacing of doubles at the magnitude of the rational v (2^-1074 in the denormal range), computed on integers."""
    v = abs(v)
    if v == 0:
        return Fraction(1, 2 ** 1074)
    e = v.numerator.bit_length() - v.denominator.bit_length()
    if Fraction(2) ** e > v:
        e -= 1
    return Fraction(2) ** (max(e, -1022) - 52)


def pred(x):
    return math.nextafter(x, -math.inf)


def succ(x):
    return math.nextafter(x, math.inf)


assert fkey(0.0) == [1048576, 0, 0] and fkey(1.0) == [1572352, 0, 0] and fkey(math.inf) == [2096640, 0, 0]
assert fkey(-math.inf) == [511, 2097151, 4194303] and unkey(fkey(-1.5)) == -1.5 and fkey(-0.0) == fkey(0.0)
