"""Order-preserving keys of doubles for F64.tla, and exact helpers (Fractions) for measured residuals."""
import math
import struct
from fractions import Fraction

NAN = [-1, -1, -1]


def key64(x):
    if x != x:
        return None
    if x == 0.0:
        x = 0.0   # -0.0 -> +0.0
    b = struct.unpack("<Q", struct.pack("<d", x))[0]
    return b ^ 0xFFFFFFFFFFFFFFFF if b >> 63 else b | 0x8000000000000000


def fkey(x):
    k = key64(float(x))
    if k is None:
        return list(NAN)
    return [k >> 43, (k >> 22) & 0x1FFFFF, k & 0x3FFFFF]


def unkey(limbs):
    if limbs == NAN:
        return float("nan")
    k = (limbs[0] << 43) | (limbs[1] << 22) | limbs[2]
    b = k ^ 0x8000000000000000 if k >> 63 else k ^ 0xFFFFFFFFFFFFFFFF
    return struct.unpack("<d", struct.pack("<Q", b))[0]


def tkey(t):
    """Key of a jellyfysh Time."""
    return [fkey(t.quotient), fkey(t.remainder)]


def ulp(x):
    return math.ulp(x)


def exact(x):
    return Fraction(x)


def pred(x):
    return math.nextafter(x, -math.inf)


def succ(x):
    return math.nextafter(x, math.inf)


assert fkey(0.0) == [1048576, 0, 0] and fkey(1.0) == [1572352, 0, 0] and fkey(math.inf) == [2096640, 0, 0]
assert fkey(-math.inf) == [511, 2097151, 4194303] and unkey(fkey(-1.5)) == -1.5 and fkey(-0.0) == fkey(0.0)
