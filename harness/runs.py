"""Record real runs of the shipped (and generated) configurations and validate each against TraceEcmc.tla."""
import collections
import json
import os
from concurrent.futures import ThreadPoolExecutor

from harness import tlc
from harness.build import run_py
from harness.common import extract_printed, plain

P = "config_files/2018_JCP_149_064113/"
SHIPPED = [
    P + "coulomb_atoms/power_bounded.ini", P + "coulomb_atoms/cell_bounded.ini", P + "coulomb_atoms/cell_veto.ini",
    P + "coulomb_atoms/power_bounded_dump.ini",
    P + "dipoles/atom_factors.ini", P + "dipoles/cell_bounded.ini", P + "dipoles/cell_veto.ini",
    P + "dipoles/dipole_factors_inside_first.ini", P + "dipoles/dipole_factors_outside_first.ini",
    P + "dipoles/dipole_factors_ratio.ini", P + "dipoles/dipole_motion.ini",
    P + "water/coulomb_cell_veto_lj_cell_veto.ini", P + "water/coulomb_cell_veto_lj_inverted.ini",
    P + "water/coulomb_power_bounded_lj_cell_bounded.ini", P + "water/coulomb_power_bounded_lj_inverted.ini",
    P + "water/single_molecule.ini",
    "config_files/hard_disk_dipoles/single_hard_disk_dipole.ini",
]


def record_and_validate(sc, jobs, workers=16, timeout=1500):
    """jobs: list of dict(name, config, seed, legs, sets=[...], extra=[...]).  Returns list of result dicts."""
    tdir = sc.sub("runs")

    def one(job):
        name = job["name"]
        tr = os.path.join(tdir, name + ".ndjson")
        args = ["-m", "harness.runjf", "--trace", tr, "--workdir", os.path.join(tdir, "w_" + name), "--seed", str(job["seed"])]
        if job.get("config"):
            args += ["--config", job["config"]]
        if job.get("resume"):
            args += ["--resume", job["resume"]]
        if job.get("legs"):
            args += ["--legs", str(job["legs"])]
        for s in job.get("sets", []):
            args += ["--set", s]
        args += job.get("extra", [])
        r = run_py(sc, args, timeout=timeout)
        out = dict(job=job, trace=tr, run_rc=r.returncode, run_err=r.stderr[-2000:])
        try:
            out["status"] = json.loads(r.stdout[r.stdout.index("{"):])
        except Exception:
            out["status"] = dict(ok=False, exc="harness", msg=r.stdout[-500:] + r.stderr[-1500:])
        if not os.path.exists(tr) or os.path.getsize(tr) == 0:
            out["verdict"] = None
            return out
        if job.get("validate", True):
            res = tlc.run("TraceEcmc", "TraceEcmc.cfg", sc.sub("tv_" + name), workers=1, env={"TRACE_FILE": tr},
                          timeout=timeout, java_opts=["-XX:ParallelGCThreads=2", "-Xmx3g"])
            out["tlc"] = res
            v = [plain(x) for x in extract_printed(res.out, "VERDICT")]
            out["verdict"] = v[-1] if v else None
        return out
    with ThreadPoolExecutor(workers) as ex:
        return list(ex.map(one, jobs))


def summarize(results):
    for r in results:
        v = r.get("verdict")
        c = collections.Counter((p, cl) for p, ln, cl in v[1]) if v else None
        print(r["job"]["name"], r["status"].get("ok"), r["status"].get("exc"), v[0] if v else None,
              (r.get("tlc").error if r.get("tlc") else None))
        if c:
            for k, n in c.most_common():
                print("    ", n, k)
        if not r["status"].get("ok"):
            print("    ", r["status"].get("msg"), r["status"].get("tb", "")[-600:])
