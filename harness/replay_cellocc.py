"""Replay of CellOcc.tla behaviours into the real SingleActiveCellOccupancy over a real CuboidPeriodicCells, and of the
partition clause into the real tagger generators (scratch copy).

usage: replay_cellocc.py <file.json>  {"ncells","layers","maxocc","relevant","nunits","behaviours":[{"init":[..],"steps":[..]}]}
"""
import json
import sys
import types

from harness.build import assert_scratch_import

assert_scratch_import()
import jellyfysh.setting as setting  # noqa: E402
from jellyfysh.setting.hypercuboid_setting import HypercuboidSetting  # noqa: E402
from jellyfysh.base.node import Node  # noqa: E402
from jellyfysh.base.unit import Unit  # noqa: E402
from jellyfysh.base.time import Time  # noqa: E402
from jellyfysh.activator.internal_state.cell_occupancy.cells.cuboid_periodic_cells import CuboidPeriodicCells  # noqa: E402
from jellyfysh.activator.internal_state.single_active_cell_occupancy import SingleActiveCellOccupancy  # noqa: E402
from jellyfysh.activator.tagger.excluded_cells_tagger import ExcludedCellsTagger  # noqa: E402
from jellyfysh.activator.tagger.surplus_cells_tagger import SurplusCellsTagger  # noqa: E402
from jellyfysh.activator.tagger.cell_bounding_potential_tagger import CellBoundingPotentialTagger  # noqa: E402
from jellyfysh.activator.tagger.cell_veto_tagger import CellVetoTagger  # noqa: E402
from jellyfysh.activator.tagger.cell_boundary_tagger import CellBoundaryTagger  # noqa: E402
from jellyfysh.event_handler.cell_boundary_event_handler import CellBoundaryEventHandler  # noqa: E402


SIDE = 1.0          # cell side along the ring; the box is [ncells * SIDE, 1.0]


def pos_in_cell(cell, unit):
    # units alternate between the cell centre, the cell minimum (exactly on the boundary) and near the cell maximum; with a
    # cell side that is not a power of two the boundary itself is not exactly representable, so a quarter is used instead
    frac = ((0.5, 0.0, 0.96875) if SIDE == 1.0 else (0.5, 0.25, 0.96875))[unit % 3]
    return [(cell + frac) * SIDE, 0.5]


def node(uid, cell, relevant, moving):
    return Node(Unit((uid,), pos_in_cell(cell, uid), {"q": 1.0 if relevant else 0.0},
                     [1.0, 0.0] if moving else None, Time(0.0, 0.0) if moving else None))


def drift_has(drift, word):
    return any(word in d.get("what", "") for d in drift)


def replay(beh, cfg, drift):
    """Property level (a mismatch): per cell the recorded units (occupants + surplus) are the relevant non-active units whose
    position is in that cell, each once; no cell lists more occupants than the limit; the active unit and its cell; the
    targets of the generator families partition the other relevant units, explicit-pair targets of the nearby family lie in
    nearby cells and veto targets in the others.  Transcription level (appended to `drift', a note): the exact lists of
    CellOcc.tla (order, who is surplus, which cells own a surplus list)."""
    exact = True
    ncells, layers, maxocc, relevant, nunits = cfg["ncells"], cfg["layers"], cfg["maxocc"], set(cfg["relevant"]), cfg["nunits"]
    setting.reset()
    HypercuboidSetting(beta=1.0, dimension=2, system_lengths=[ncells * SIDE, 1.0])
    setting.set_number_of_root_nodes(nunits)
    setting.set_number_of_nodes_per_root_node(1)
    setting.set_number_of_node_levels(1)
    cells = CuboidPeriodicCells(cells_per_side=[ncells, 1], neighbor_layers=layers)
    cl = list(cells.yield_cells())
    cidx = {c: i for i, c in enumerate(cl)}
    filt = len(relevant) < nunits
    occ = SingleActiveCellOccupancy(cells, 1, maximum_number_occupants=maxocc, charge="q" if filt else None)
    cell_of = {u: beh["init"][u - 1] for u in range(1, nunits + 1)}
    occ.initialize([node(u, cell_of[u], u in relevant, False) for u in range(1, nunits + 1)])
    stubs = {}

    def stub(cls):
        # a bare instance of the real tagger class (methods and class attributes available), bound to the occupancy
        if cls not in stubs:
            obj = object.__new__(cls)
            obj._internal_state = occ
            stubs[cls] = obj
        return stubs[cls]
    boundary = CellBoundaryEventHandler()
    boundary.initialize(cells, 1)
    moving = None
    for step, obs in enumerate(beh["steps"]):
        op = obs["op"]
        try:
            if op["name"] in ("start", "lift"):
                moving = op["unit"]
                occ.update([node(moving, cell_of[moving], moving in relevant, True)])
            elif op["name"] == "cross":
                # the crossing itself is made by the real cell-boundary event handler, in both directions of motion
                want_cell = (cell_of[moving] + (1 if op["up"] else ncells - 1)) % ncells
                n = node(moving, cell_of[moving], moving in relevant, True)
                n.value.velocity = [1.0 if op["up"] else -1.0, 0.0]
                start = list(n.value.position)
                t = boundary.send_event_time([n])
                out = boundary.send_out_state()
                got_cell = cidx[cells.position_to_cell(out[0].value.position)]
                dt = t - Time(0.0, 0.0)
                if got_cell != want_cell or not (0.0 < dt <= SIDE * (1.0 + 1e-9)) or out[0].value.position[1] != start[1]:
                    return dict(step=step, what="cell-boundary event does not put the active unit into the neighbouring cell "
                                                "(motion in %s direction)" % ("positive" if op["up"] else "negative"),
                                got=dict(cell=got_cell, dt=dt, position=out[0].value.position), want=want_cell, start=start, op=op)
                cell_of[moving] = want_cell
                occ.update([node(moving, cell_of[moving], moving in relevant, True)])
        except Exception as e:
            if obs["activeId"] == -2:
                continue
            return dict(step=step, what="SingleActiveCellOccupancy.update raised", got=repr(e), op=op)
        if obs["activeId"] == -2:
            return dict(step=step, what="model expects update() to raise, real code did not", op=op)
        got_occ = [[i[0] for i in occ[c]] for c in cl]
        try:
            got_sur = [[i[0] for i in occ._surplus.get(c, [])] for c in cl]
            got_keys = sorted(cidx[c] for c in occ._surplus)
        except AttributeError:
            # the per-cell surplus lists are not part of the public interface: without them the surplus units are attributed
            # to the cell that contains them (public yield_surplus), and only the occupant lists are compared per cell
            if exact:
                drift.append(dict(step=step, what="attribute _surplus not found: surplus units taken from yield_surplus()"))
                exact = False
            got_sur = [[] for _ in cl]
            for i in occ.yield_surplus():
                got_sur[cell_of[i[0]]].append(i[0])
            got_keys = sorted(c for c in range(len(cl)) if got_sur[c])
        act = list(occ.yield_active_cells())
        got_act = (act[0][1][0], cidx[act[0][0]]) if act else (-1, -1)
        want = (obs["occ"], obs["surplus"], sorted(obs["keys"]), (obs["activeId"], obs["activeCell"]))
        got_sets = [sorted(o + x) for o, x in zip(got_occ, got_sur)]
        want_sets = [sorted(o + x) for o, x in zip(obs["occ"], obs["surplus"])]
        if got_sets != want_sets or got_act != want[3] or (maxocc > 0 and any(len(o) > maxocc for o in got_occ)):
            return dict(step=step, what="occupancy bookkeeping after %s differs from CellOcc.tla" % op["name"],
                        got=[got_occ, got_sur, got_keys, got_act], want=want, op=op)
        if exact and (got_occ, got_sur, got_keys) != want[:3]:
            drift.append(dict(step=step, what="same units per cell, but lists differ from CellOcc.tla's after " + op["name"],
                              got=[got_occ, got_sur, got_keys], want=want[:3]))
            exact = False
        if op["name"] == "finish" or not act:
            continue
        # ---- partition through the real generators
        a = (act[0][1])
        try:
            near = sorted(t[1][0] for t in ExcludedCellsTagger.yield_identifiers_send_event_time(stub(ExcludedCellsTagger), []))
            sur = sorted(t[1][0] for t in SurplusCellsTagger.yield_identifiers_send_event_time(stub(SurplusCellsTagger), []))
            bounding = list(CellBoundingPotentialTagger.yield_identifiers_send_event_time(stub(CellBoundingPotentialTagger), []))
        except AttributeError as e:
            # the generators are driven on bare tagger objects (no event handlers, no activator); a tagger that needs more of
            # its own state than the internal state cannot be driven this way -- the partition is then judged on recorded runs only
            if "has no attribute" in str(e) and not drift_has(drift, "stand-alone"):
                drift.append(dict(step=step, what="tagger generators cannot be driven stand-alone (%s)" % e))
            continue
        veto_b = sorted(x[0] for t in bounding for x in t[1:])
        veto_cells = {c: [i[0] for i in occ[cl[c]]] for c, _ in obs["vetoCells"]}      # target lookup of the mediator
        veto_v = sorted(x for v in veto_cells.values() for x in v)
        cv = list(CellVetoTagger.yield_identifiers_send_event_time(stub(CellVetoTagger), []))
        cb = list(CellBoundaryTagger.yield_identifiers_send_event_time(stub(CellBoundaryTagger), []))
        vcells = {c for c, _ in obs["vetoCells"]}
        if (veto_b != veto_v or any(cell_of[u] in vcells for u in near) or any(cell_of[u] not in vcells for u in veto_b)):
            return dict(step=step, what="targets of the cell-based tagger families differ from CellOcc.tla's partition",
                        got=[near, sur, veto_b, veto_v], want=[obs["near"], obs["sur"], obs["veto"]], op=op)
        if exact and (near, sur, veto_b) != (sorted(obs["near"]), sorted(obs["sur"]), sorted(obs["veto"])):
            drift.append(dict(step=step, what="families treat the units in another split than CellOcc.tla (still a partition)",
                              got=[near, sur, veto_b], want=[obs["near"], obs["sur"], obs["veto"]]))
            exact = False
        if any(t[0] != a for t in bounding) or cv != [(a,)] or cb != [(a,)]:
            return dict(step=step, what="cell-veto / cell-boundary / cell-bounding generators do not start from the active unit",
                        got=[bounding, cv, cb])
        allt = near + sur + veto_b
        if sorted(allt) != sorted(set(allt)) or set(allt) != relevant - {a[0]}:
            return dict(step=step, what="cell-based families do not partition the other relevant units", got=[near, sur, veto_b])
    return None


def main():
    spec = json.load(open(sys.argv[1]))
    fails, steps, kinds, drifts = [], 0, {}, []
    surplus_seen = 0
    for idx, beh in enumerate(spec["behaviours"]):
        steps += len(beh["steps"])
        for o in beh["steps"]:
            kinds[o["op"]["name"]] = kinds.get(o["op"]["name"], 0) + 1
            surplus_seen += 1 if o["keys"] else 0
        drift = []
        global SIDE
        r = None
        # two geometries: cells of side 1, and (for 3, 6, 7, 9 cells) a box of length 1 whose cell side 1/n is not exactly
        # representable -- there int(x / side) of the floats just below the box length rounds up
        for SIDE in ([1.0, 1.0 / spec["ncells"]] if spec["ncells"] in (3, 6, 7, 9) else [1.0]):
            r = replay(beh, spec, drift)
            if r is not None:
                if SIDE != 1.0:
                    r["what"] += " (box length 1, cell side 1/%d)" % spec["ncells"]
                break
        SIDE = 1.0
        if drift and len(drifts) < 3:
            drifts.append(dict(behaviour=idx, **drift[0]))
        if r is not None:
            r["behaviour"] = idx
            fails.append(r)
            if len(fails) >= 5:
                break
    setting.reset()
    json.dump(dict(behaviours=len(spec["behaviours"]), steps=steps, kinds=kinds, fails=fails, surplus_steps=surplus_seen, drift=drifts),
              sys.stdout)


if __name__ == "__main__":
    main()
