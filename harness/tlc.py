"""TLC driver and parsers for TLA+ values / simulation behaviours / state dumps."""
import os
import re
import shutil
import subprocess
import time

JAR = "/opt/veriftools/tla/tla2tools.jar"
CM = None
SPECS = os.path.join(os.path.dirname(os.path.dirname(os.path.abspath(__file__))), "specs")


def _classpath():
    global CM
    if CM is None:
        # the tlc wrapper on PATH already puts CommunityModules on the classpath; find it for direct java calls
        cands = [p for p in ("/opt/veriftools/tla/CommunityModules-deps.jar", "/opt/veriftools/tla/CommunityModules.jar")
                 if os.path.exists(p)]
        CM = os.pathsep.join([JAR] + cands)
    return CM


class TLCResult:
    def __init__(self):
        self.rc = None
        self.out = ""
        self.generated = 0
        self.distinct = 0
        self.depth = 0
        self.violated = []      # invariant / property names
        self.error = None       # machinery-level problem (parse error, ...)
        self.wall = 0.0
        self.coverage = {}      # action -> (distinct, total) with -coverage
        self.printed = []       # PrintT lines (raw)
        self.deadlock = False
        self.timeout = False

    @property
    def ok(self):
        return self.rc == 0 and not self.violated and not self.error and not self.deadlock

    def summary(self):
        return dict(rc=self.rc, generated=self.generated, distinct=self.distinct, depth=self.depth,
                    violated=self.violated, error=self.error, wall=round(self.wall, 2))


def run(module, cfg, workdir, workers=None, simulate=None, depth=None, seed=None, coverage=False, timeout=1800,
        env=None, dump=None, extra=None, deadlock=True, java_opts=None, continue_=False):
    """Run TLC on specs/<module>.tla with config <cfg> (path or name in specs/).

    ``workdir``: scratch directory; the spec directory is copied there (TLC writes next to the spec).
    """
    res = TLCResult()
    specdir = os.path.join(workdir, "specs")
    if not os.path.isdir(specdir):
        shutil.copytree(SPECS, specdir)
    cfgpath = cfg if os.path.isabs(cfg) else os.path.join(specdir, cfg)
    meta = os.path.join(workdir, "meta.%d.%d" % (os.getpid(), int(time.time() * 1e6) % 10**9))
    cmd = ["java", "-XX:+UseParallelGC", "-Xss16m"]
    opts = list(java_opts or [])
    if not any(o.startswith("-Xmx") for o in opts):
        opts.append("-Xmx%dg" % (8 if (workers in (None, "auto") or int(workers) >= 12) else 3))
    cmd += opts
    cmd += ["-cp", _classpath(), "tlc2.TLC", "-metadir", meta, "-noGenerateSpecTE", "-config", cfgpath]
    cmd += ["-workers", str(workers or "auto")]
    if simulate is not None:
        cmd += ["-simulate", simulate]
    if depth is not None:
        cmd += ["-depth", str(depth)]
    if seed is not None:
        cmd += ["-seed", str(seed)]
    if coverage:
        cmd += ["-coverage", "1"]
    if dump:
        cmd += ["-dump"] + list(dump)
    if not deadlock:
        cmd += ["-deadlock"]
    if continue_:
        cmd += ["-continue"]
    if extra:
        cmd += list(extra)
    cmd += [os.path.join(specdir, module + ".tla")]
    e = dict(os.environ)
    if env:
        e.update({k: str(v) for k, v in env.items()})
    t0 = time.time()
    try:
        p = subprocess.run(cmd, cwd=specdir, env=e, stdout=subprocess.PIPE, stderr=subprocess.STDOUT, text=True,
                           timeout=timeout)
        res.rc = p.returncode
        res.out = p.stdout
    except subprocess.TimeoutExpired as ex:
        res.timeout = True
        res.rc = -9
        res.out = (ex.stdout or b"").decode(errors="replace") if isinstance(ex.stdout, bytes) else (ex.stdout or "")
        subprocess.run(["pkill", "-f", meta], check=False)
    res.wall = time.time() - t0
    shutil.rmtree(meta, ignore_errors=True)
    _parse(res)
    return res


_RE_STATES = re.compile(r"(\d+) states generated, (\d+) distinct states found")
_RE_DEPTH = re.compile(r"The depth of the complete state graph search is (\d+)")
_RE_INV = re.compile(r"Invariant (\S+) is violated")
_RE_PROP = re.compile(r"(?:Temporal properties were violated|Action property (\S+) is violated|"
                      r"Error: The postcondition.*?violated|Assumption .* is false)")


def _parse(res):
    out = res.out
    for m in _RE_STATES.finditer(out):
        res.generated, res.distinct = int(m.group(1)), int(m.group(2))
    m = _RE_DEPTH.search(out)
    if m:
        res.depth = int(m.group(1))
    for m in _RE_INV.finditer(out):
        res.violated.append(m.group(1))
    for m in _RE_PROP.finditer(out):
        res.violated.append(m.group(1) or m.group(0)[:60])
    if "Deadlock reached" in out:
        res.deadlock = True
    if res.timeout:
        res.error = "timeout"
    elif res.rc not in (0, 12, 13, 11) and not res.violated and not res.deadlock:
        # 12: safety violation, 13: liveness violation, 11: deadlock
        tail = [l for l in out.splitlines() if l.strip()][-15:]
        res.error = "TLC exit %s: %s" % (res.rc, " | ".join(tail)[-1500:])
    if re.search(r"(Parsing or semantic analysis failed|Semantic errors|\*\*\* Errors:|Lexical error|"
                 r"Encountered \".*\" at line)", out):
        res.error = "spec error: " + " | ".join(out.splitlines()[-12:])[-1500:]
    # coverage lines:  <Action line .. of module M>: distinct:total
    for m in re.finditer(r"^<(\w+) line \d+, col \d+ to line \d+, col \d+ of module (\w+)>: (\d+):(\d+)", out, re.M):
        name = m.group(1)
        d, t = int(m.group(3)), int(m.group(4))
        od, ot = res.coverage.get(name, (0, 0))
        res.coverage[name] = (max(od, d), max(ot, t))
    res.printed = [l for l in out.splitlines() if l.startswith(("<<", "[", "\"", "{"))]


# --------------------------------------------------------------------------------------------------------------------
# TLA+ value parser (the textual form TLC prints for states)
# --------------------------------------------------------------------------------------------------------------------

class _P:
    def __init__(self, s):
        self.s = s
        self.i = 0

    def ws(self):
        s = self.s
        while self.i < len(s) and s[self.i] in " \t\r\n":
            self.i += 1

    def peek(self, k=1):
        return self.s[self.i:self.i + k]

    def eat(self, tok):
        self.ws()
        if not self.s.startswith(tok, self.i):
            raise ValueError("expected %r at %d: %r" % (tok, self.i, self.s[self.i:self.i + 40]))
        self.i += len(tok)

    def value(self):
        self.ws()
        s = self.s
        c = s[self.i]
        if c == '"':
            j = self.i + 1
            buf = []
            while s[j] != '"':
                if s[j] == "\\":
                    j += 1
                buf.append(s[j])
                j += 1
            self.i = j + 1
            return "".join(buf)
        if s.startswith("<<", self.i):
            self.i += 2
            items = self.seq(">>")
            return tuple(items)
        if c == "{":
            self.i += 1
            items = self.seq("}")
            return frozenset(items)
        if c == "[":
            self.i += 1
            rec = {}
            self.ws()
            if self.peek() == "]":
                self.i += 1
                return rec
            while True:
                self.ws()
                m = re.compile(r"[A-Za-z_][A-Za-z0-9_]*").match(s, self.i)
                key = m.group(0)
                self.i = m.end()
                self.eat("|->")
                rec[key] = self.value()
                self.ws()
                if self.peek() == ",":
                    self.i += 1
                    continue
                self.eat("]")
                return rec
        if c == "(":
            # function  (a :> b @@ c :> d)
            self.i += 1
            fn = {}
            while True:
                k = self.value()
                self.eat(":>")
                v = self.value()
                fn[k] = v
                self.ws()
                if s.startswith("@@", self.i):
                    self.i += 2
                    continue
                self.eat(")")
                return fn
        m = re.compile(r"-?\d+").match(s, self.i)
        if m:
            self.i = m.end()
            return int(m.group(0))
        m = re.compile(r"[A-Za-z_][A-Za-z0-9_]*").match(s, self.i)
        if m:
            self.i = m.end()
            w = m.group(0)
            if w == "TRUE":
                return True
            if w == "FALSE":
                return False
            return w  # model value
        raise ValueError("cannot parse value at %d: %r" % (self.i, s[self.i:self.i + 40]))

    def seq(self, close):
        items = []
        self.ws()
        if self.s.startswith(close, self.i):
            self.i += len(close)
            return items
        while True:
            items.append(self.value())
            self.ws()
            if self.peek() == ",":
                self.i += 1
                continue
            self.eat(close)
            return items


def parse_value(text):
    p = _P(text)
    v = p.value()
    return v


def parse_state(text):
    """``/\\ a = ...  /\\ b = ...`` -> dict."""
    state = {}
    parts = re.split(r"(?m)^\s*/\\ ", "\n" + text.strip())
    for part in parts:
        part = part.strip()
        if not part:
            continue
        name, _, val = part.partition("=")
        state[name.strip()] = parse_value(val.strip())
    return state


def parse_sim_file(path):
    """A behaviour file written by ``-simulate file=...``  ->  list of (action_name, state dict)."""
    text = open(path).read()
    steps = []
    for m in re.finditer(r"\\\* (?:<(\w+) [^>]*>|(Initial predicate)|<(Initial predicate)>)\s*\nSTATE_\d+ ==\s*\n(.*?)(?=\n\n|\Z)",
                         text, re.S):
        act = m.group(1) or "Init"
        steps.append((act, parse_state(m.group(4))))
    return steps


def parse_dump(path):
    """``-dump <file>`` (plain) -> list of state dicts."""
    text = open(path).read()
    states = []
    for m in re.finditer(r"State \d+:\n(.*?)(?=\n\n|\Z)", text, re.S):
        states.append(parse_state(m.group(1)))
    return states


def to_tla(v):
    """Python value -> TLA+ text (ints, bools, str, tuple/list = sequence, frozenset/set, dict = record/function)."""
    if isinstance(v, bool):
        return "TRUE" if v else "FALSE"
    if isinstance(v, int):
        return str(v)
    if isinstance(v, str):
        return '"' + v.replace("\\", "\\\\").replace('"', '\\"') + '"'
    if isinstance(v, (tuple, list)):
        return "<<" + ", ".join(to_tla(x) for x in v) + ">>"
    if isinstance(v, (set, frozenset)):
        return "{" + ", ".join(sorted(to_tla(x) for x in v)) + "}"
    if isinstance(v, dict):
        if not v:
            return "<<>>"
        if all(isinstance(k, str) and re.match(r"^[A-Za-z_][A-Za-z0-9_]*$", k) for k in v):
            return "[" + ", ".join("%s |-> %s" % (k, to_tla(x)) for k, x in v.items()) + "]"
        return "(" + " @@ ".join("%s :> %s" % (to_tla(k), to_tla(x)) for k, x in v.items()) + ")"
    raise TypeError(type(v))
