"""Shared driver for the operator-level checks (C14, C15, C16, ...): design run + table replay + key-trace validation."""
import json
import os

from harness import tlc
from harness.build import run_py
from harness.common import extract_json, extract_printed, plain


def design_and_table(chk, sc, module, cfg, driver, label=None, workers=4, table_args=(), timeout=900, mode="table",
                     keyfn=None, replay=True):
    """Run TLC on module/cfg (which also prints the evaluation table), replay the table with the driver."""
    res = chk.add_tlc(label or module, tlc.run(module, cfg, sc.sub("d_" + (label or module)), workers=workers,
                                               timeout=timeout))
    for inv in res.violated:
        chk.violation("design:" + inv, "%s.tla: %s violated" % (module, inv), res.out[-4000:])
    tabs = extract_json(res.out, "TABLE")
    if not tabs:
        chk.machinery("%s.tla did not print its evaluation table: %s" % (module, (res.error or res.out[-500:])))
        return None
    tpath = os.path.join(sc.dir, "table_%s.json" % (label or module))
    json.dump(tabs[0], open(tpath, "w"))
    if not replay:
        return dict(tabs[0], _path=tpath)
    r = run_py(sc, ["-m", driver, mode, tpath] + list(table_args), timeout=timeout)
    if r.returncode != 0 and _is_machinery(r.stderr):
        chk.machinery("driver %s failed to start: %s" % (driver, r.stderr[-800:]))
        return tabs[0]
    if r.returncode != 0:
        chk.violation("replay:exception", "real code raised while replaying the %s.tla table" % module, r.stderr[-3000:])
        return tabs[0]
    s = json.loads(r.stdout)
    chk.evaluations += s["evaluations"]
    chk.traces += 1
    for f in s["fails"]:
        key = keyfn(f) if keyfn else "replay:%s" % f["what"]
        chk.violation(key, "real code differs from %s.tla on the exact lattice: %s" % (module, f["what"]), f)
    return tabs[0]


def key_trace(chk, sc, module, driver, idx, args, keyfn=None, timeout=1200, mode="trace"):
    tr = os.path.join(sc.dir, "%s_%s.ndjson" % (module, idx))
    g = run_py(sc, ["-m", driver, mode] + [str(a) for a in args] + [tr], timeout=timeout)
    if g.returncode != 0 and _is_machinery(g.stderr):
        chk.machinery("driver %s failed to start: %s" % (driver, g.stderr[-800:]))
        return
    if g.returncode != 0:
        chk.violation("trace:exception", "real code raised during boundary evaluation (%s)" % driver, g.stderr[-3000:])
        return
    rv = chk.add_tlc("%s#%s" % (module, idx), tlc.run(module, module + ".cfg", sc.sub("t_%s_%s" % (module, idx)), workers=1,
                                                       env={"TRACE_FILE": tr}, timeout=timeout))
    verdicts = [plain(v) for v in extract_printed(rv.out, "VERDICT")]
    if not verdicts:
        chk.machinery("%s produced no verdict: %s" % (module, rv.out[-800:]))
        return
    total, viol = verdicts[-1]
    chk.traces += 1
    chk.evaluations += total
    lines = None
    for line, clause in sorted(viol):
        if lines is None:
            lines = open(tr).read().splitlines()
        rec = json.loads(lines[line - 1])
        key = keyfn(rec, clause) if keyfn else "trace:" + clause
        chk.violation(key, "real code, trace line %d: %s" % (line, clause), rec)
    return total


def _is_machinery(stderr):
    last = [x for x in stderr.strip().splitlines() if x.strip()][-1:] or [""]
    return last[0].startswith(("ImportError", "ModuleNotFoundError", "SyntaxError", "IndentationError"))
