"""CLI:  python3 -m harness.check <Cxx> quick|thorough   (cwd = /verif)"""
import importlib
import os
import sys
import traceback

from harness.common import Check


def main():
    pid = sys.argv[1]
    tier = sys.argv[2] if len(sys.argv) > 2 else os.environ.get("VERIF_TIER", "quick")
    seed = int(os.environ.get("VERIF_SEED", "20261003"))
    mod = importlib.import_module("checks." + pid.lower())
    chk = Check(pid, tier, seed)
    try:
        mod.run(chk)
    except Exception:
        traceback.print_exc()
        chk.machinery("exception in check driver: " + traceback.format_exc().splitlines()[-1])
    level = getattr(mod, "LEVEL", "model_checking")
    sys.exit(chk.finish(level))


if __name__ == "__main__":
    main()
