"""C04 boundary driver (scratch copy): trace <seed> <n> <out.ndjson>
Real thinning handlers with scripted potentials; the uniform draw is forced to the doubles next to the decision boundary."""
import json
import math
import random
import sys

from harness.build import assert_scratch_import
from harness.f64 import fkey, pred, succ

assert_scratch_import()
import jellyfysh.setting as setting  # noqa: E402
from jellyfysh.setting.hypercubic_setting import HypercubicSetting  # noqa: E402
from jellyfysh.base.node import Node  # noqa: E402
from jellyfysh.base.unit import Unit  # noqa: E402
from jellyfysh.base.time import Time  # noqa: E402
from jellyfysh.lifting.inside_first_lifting import InsideFirstLifting  # noqa: E402
from jellyfysh.event_handler.two_leaf_unit_bounding_potential_event_handler import TwoLeafUnitBoundingPotentialEventHandler  # noqa: E402
from jellyfysh.event_handler.two_composite_object_summed_bounding_potential_event_handler import \
    TwoCompositeObjectSummedBoundingPotentialEventHandler  # noqa: E402
from jellyfysh.event_handler.two_leaf_unit_event_handler_with_piecewise_constant_bounding_potential import \
    TwoLeafUnitEventHandlerWithPiecewiseConstantBoundingPotential  # noqa: E402


class StubPotential:
    """Scripted potential: derivative() returns the value set by the driver (per call: value / number of pairs)."""
    number_separation_arguments = 1
    number_charge_arguments = 0
    potential_change_required = True

    def __init__(self, value, share=1):
        self.value, self.share = value, share

    def derivative(self, velocity, separation, *charges):
        return self.value / self.share

    def displacement(self, velocity, separation, *args):
        return 0.125


def atoms(two_level):
    if not two_level:
        a = Node(Unit((0,), [0.25, 0.5, 0.5], {"q": 1.0}, [1.0, 0.0, 0.0], Time(0.0, 0.0)))
        b = Node(Unit((1,), [0.75, 0.5, 0.5], {"q": 1.0}))
        return [a, b]
    roots = []
    for r in range(2):
        moving = r == 0
        root = Node(Unit((r,), [0.25 + 0.5 * r, 0.5, 0.5], None, [0.5, 0.0, 0.0] if moving else None,
                         Time(0.0, 0.0) if moving else None))
        for k in range(2):
            act = moving and k == 0
            root.add_child(Node(Unit((r, k), [0.2 + 0.5 * r + 0.1 * k, 0.5, 0.5], {"q": 1.0}, [1.0, 0.0, 0.0] if act else None,
                                     Time(0.0, 0.0) if act else None)))
        roots.append(root)
    return roots


def walk(n):
    yield n
    for c in n.children:
        yield from walk(c)


def velocities(state):
    return {tuple(n.value.identifier): (None if n.value.velocity is None else tuple(n.value.velocity)) for r in state for n in walk(r)}


def main():
    seed, n, path = int(sys.argv[2]), int(sys.argv[3]), sys.argv[4]
    rnd = random.Random(seed)
    out = open(path, "w")
    real_uniform, real_expo = random.uniform, random.expovariate
    qbs = [2.0, 0.7, 1e-3, 123.456]
    for _ in range(n):
        qbs.append(rnd.uniform(1e-6, 50.0))
    for kind in ("two_leaf", "summed", "piecewise"):
        for qb in qbs:
            qs = [-1.0, 0.0, 5e-324, qb / 3, pred(qb / 3), qb / 2, pred(qb), qb, succ(qb), 2 * qb, rnd.uniform(0, qb)]
            for q in qs:
                us = {0.0, pred(qb), qb / 2}
                if q > 0:
                    us |= {q, pred(q), succ(q)} if q < qb else {pred(qb)}
                us = sorted(u for u in us if 0.0 <= u <= qb)
                for u in us:
                    setting.reset()
                    HypercubicSetting(beta=1.0, dimension=3, system_length=1.0)
                    setting.set_number_of_root_nodes(2)
                    setting.set_number_of_nodes_per_root_node(2 if kind == "summed" else 1)
                    setting.set_number_of_node_levels(2 if kind == "summed" else 1)
                    calls = []

                    def uniform(a, b, _u=u):
                        calls.append((a, b))
                        return _u
                    random.uniform = uniform
                    random.expovariate = lambda lam: 0.5
                    try:
                        if kind == "two_leaf":
                            h = TwoLeafUnitBoundingPotentialEventHandler(potential=StubPotential(q), bounding_potential=StubPotential(qb))
                            h.send_event_time(atoms(False))
                        elif kind == "summed":
                            h = TwoCompositeObjectSummedBoundingPotentialEventHandler(
                                potential=StubPotential(q, 2), bounding_potential=StubPotential(qb, 2), lifting=InsideFirstLifting())
                            h.send_event_time(atoms(True))
                        else:
                            h = TwoLeafUnitEventHandlerWithPiecewiseConstantBoundingPotential(
                                potential=StubPotential(q), offset=0.0, max_displacement=10.0)
                            h.send_event_time(atoms(False))
                            # the piecewise-constant bound is max(derivative) + offset = q; script it to qb
                            h._bounding_event_rate = qb
                        before = velocities(h._state)
                        del calls[:]
                        state = h.send_out_state()
                        after = velocities(state)
                    finally:
                        random.uniform, random.expovariate = real_uniform, real_expo
                    conf_calls = [c for c in calls if c[1] == (qb if kind != "summed" else c[1])]
                    # the confirmation draw is the first uniform call of send_out_state (lifting draws follow)
                    lo, hi = (calls[0] if calls else (0.0, qb))
                    drawn = bool(calls)
                    if not drawn:
                        # no draw at all is only legal when the true rate is not positive
                        lo, hi = 0.0, qb
                    q_eff = q if kind != "summed" else (q / 2) * 2
                    out.write(json.dumps(dict(kind=kind, q=fkey(max(0.0, q_eff) if kind == "summed" else q_eff), qb=fkey(qb), u=fkey(u),
                                              changed=int(before != after), same=int(before == after), drawlo=0 if lo == 0 else 1,
                                              drawhi=fkey(hi), qs=repr(q), us=repr(u), qbs=repr(qb), drawn=int(drawn))) + "\n")
    setting.reset()
    out.close()


if __name__ == "__main__":
    main()
