"""Windows of one very long scheduler history validated against SchedAbs (TraceSched.tla).  Shared by C06 and C08."""
import json
import os

from harness import tlc
from harness.build import run_py
from harness.common import extract_printed, plain


def run(chk, sc, pid):
    total = (2 ** 21 + 2 ** 19) if chk.tier == "quick" else (2 ** 23 + 2 ** 21)
    out = os.path.join(sc.sub("longsched"), "long.ndjson")
    r = run_py(sc, ["-m", "harness.long_sched", str(chk.seed % 100000 + 7), str(total), out], timeout=3000)
    if r.returncode != 0:
        last = [x for x in r.stderr.strip().splitlines() if x.strip()][-1:] or [""]
        if last[0].startswith(("ImportError", "ModuleNotFoundError", "SyntaxError")):
            chk.machinery("long_sched failed to start: " + r.stderr[-800:])
        else:
            chk.violation("longhistory:exception", "real HeapScheduler raised during a protocol-respecting history of %d trashes"
                          % total, r.stderr[-3000:])
        return
    info = json.loads(r.stdout)
    chk.notes["long_history"] = info
    rv = chk.add_tlc("TraceSched", tlc.run("TraceSched", "TraceSched.cfg", sc.sub("longsched_tlc"), workers=1,
                                           env={"TRACE_FILE": out}, timeout=1500, java_opts=["-Xmx3g"]))
    v = [plain(x) for x in extract_printed(rv.out, "VERDICT")]
    if not v:
        chk.machinery("TraceSched: no verdict: %s" % (rv.error or rv.out[-400:]))
        return
    n, viol = v[-1]
    chk.traces += 1
    chk.evaluations += n
    if info["trashes"] < total and not viol:
        chk.violation("longhistory:stopped", "the long history stopped after %d of %d trashes (the scheduler raised or returned a "
                      "handler without live event) but no window shows why" % (info["trashes"], total), info)
    lines = None
    for line, clause in sorted(viol)[:3]:
        if lines is None:
            lines = open(out).read().splitlines()
        if clause.startswith("harness"):
            chk.machinery("TraceSched line %d: %s" % (line, clause))
            continue
        chk.violation("longhistory:" + clause.split(":")[0] + clause[4:40],
                      "window of a history of %d trashes on the real HeapScheduler, record %d: %s" % (info["trashes"], line, clause),
                      dict(record=json.loads(lines[line - 1]), info=info,
                           window=[json.loads(x) for x in lines[max(0, line - 30):line + 2] if '"init"' not in x]))
