"""C10 — cell-based and file-based decompositions cover each partner once.  D+R: CellOcc.tla partition clause with the
real tagger generators (checks/cellocc.py);  D+R: FactorMap.tla, every well-formed factor file over 2-3 point masses read
by the real FactorTypeMaps;  T: partition re-checked on recorded cell runs (checks/runlevel.py)."""
from checks import cellocc
from harness import opcheck
from harness.build import Scratch


def run(chk):
    chk.assumptions += ["cell part: see C11 component model; factor files: one intra-object and one inter-object factor, "
                        "composite objects of 2 (all files) or 3 (<= 2 inter-object lines) point masses, 2-3 objects"]
    with Scratch() as sc:
        cellocc.run(chk, sc, ["Partition"])
        for cfg in (["FactorMap_22.cfg", "FactorMap_32.cfg"] if chk.tier == "quick" else
                    ["FactorMap_22.cfg", "FactorMap_23.cfg", "FactorMap_32.cfg"]):
            limit = "1500" if chk.tier == "quick" else "100000"
            tab = opcheck.design_and_table(chk, sc, "FactorMap", cfg, "harness.drive_factormap", label=cfg[:-4], workers=8,
                                           table_args=[sc.sub("ff"), limit])
        from checks import runlevel
        runlevel.run_for(chk, "C10", sc)
