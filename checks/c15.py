"""C15 — periodic wrapping / minimum image.  D: Periodic.tla;  R: table replay (cubic + cuboid);  T: TracePeriodic.tla."""
from harness import opcheck
from harness.build import Scratch


def keyfn(rec, clause):
    # failing input class for the known-findings filter
    if rec["op"] == "pos" and ("not in [0, L)" in clause or "not idempotent" in clause):
        x = float(rec["xs"])
        L = float(rec["Ls"])
        if x < 0.0 and -x < 2.0 ** -53 * L * 1.0000001:
            return "trace:pos-not-in-box:tiny-negative"
    return "trace:" + clause


def run(chk):
    chk.assumptions += ["exhaustive on the 1/8 lattice for L in {1.0, 1.5, 2.5}, positions within 3 box lengths; arbitrary "
                        "doubles are probed at boundary values and seeded random values for 8 box lengths"]
    chk.trusted.append("harness/f64.py key encoding; fractions.Fraction for measured congruence residuals")
    with Scratch() as sc:
        tab = opcheck.design_and_table(chk, sc, "Periodic", "Periodic.cfg", "harness.drive_periodic")
        if tab:
            chk.sample(dict(table_sizes={k: len(v) for k, v in tab.items()}, row=tab["sep"][7]))
        n = 60 if chk.tier == "quick" else 600
        for k in range(1 if chk.tier == "quick" else 4):
            opcheck.key_trace(chk, sc, "TracePeriodic", "harness.drive_periodic", k, [chk.seed + k, n], keyfn)
