"""C16 — cell grid partition and torus relations.  D: Cells.tla;  R: relation tables replayed into CuboidCells /
CuboidPeriodicCells (cubic + non-cubic boxes, 12 grids, layers 0-2);  T: extents and position_to_cell on extreme floats
judged by TraceCells.tla."""
from harness import opcheck
from harness.build import Scratch
from harness.f64 import unkey, pred


def keyfn(rec, clause):
    if rec["op"] == "grid" and "last cell does not reach" in clause:
        return "trace:top-of-box-uncovered"
    if rec["op"] == "probe":
        x, L = float(rec["xs"]), float(rec["Ls"])
        # positions within a few floats below L (where the last cell's recorded extent already ended)
        if x >= L - 8 * (L - pred(L)) and ("no valid cell" in clause or "zero or several" in clause
                                           or "does not contain" in clause):
            return "trace:top-of-box-uncovered"
    return "trace:" + clause


def run(chk):
    chk.assumptions += ["relations are exhaustive for 12 grids (1-3 dimensions, 1-5 cells per side) and 0-2 neighbour layers; "
                        "float extents are probed for 18 fixed and seeded random (L, cells-per-side) pairs"]
    chk.trusted.append("harness/f64.py key encoding")
    with Scratch() as sc:
        tab = opcheck.design_and_table(chk, sc, "Cells", "Cells.cfg", "harness.drive_cells", workers=8)
        if tab:
            chk.sample(dict(grid=tab["grids"][0]["g"], relations=tab["grids"][0]["rel"][:4]))
        n = 12 if chk.tier == "quick" else 150
        for k in range(1 if chk.tier == "quick" else 4):
            opcheck.key_trace(chk, sc, "TraceCells", "harness.drive_cells", k, [chk.seed + k, n], keyfn)
