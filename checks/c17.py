"""C17 — judged on recorded runs of the real mediator by TraceEcmc.tla (checks/runlevel.py), including runs that were dumped
and resumed (the samples of a resumed run are samples of the same run)."""
from checks import runlevel


def run(chk):
    runlevel.run_for(chk, "C17")
    from checks import c19
    plans = [c19.PLAN_8_ATOMS, dict(cfg=c19.P + "coulomb_atoms/power_bounded_dump.ini", sched="heap_scheduler", end="40",
                                    interval="7.3", dumps=[1, 2, 4], sets=["FixedIntervalSamplingEventHandler.sampling_interval=0.17"])]
    if chk.tier == "thorough":
        plans += [dict(c19.PLAN_8_ATOMS, end="30", dumps=None), dict(c19.PLAN_CROWDED_CELLS, end="9", dumps=None)]
    c19.dump_resume(chk, plans, {"C17"})
