"""C07 — D+R: Motion.tla (bookkeeping of the event handlers, checks/motion.py);  T: recorded runs judged by TraceEcmc.tla."""
from checks import motion, runlevel
from harness.build import Scratch


def run(chk):
    with Scratch() as sc:
        motion.run(chk, sc)
        from harness import ecmc_design
        ecmc_design.design_for(chk, sc, "C07")
        from checks import initcfg
        initcfg.run(chk, sc, "C07")          # the initial molecules as the real input handlers generate them
        runlevel.run_for(chk, "C07", sc)
