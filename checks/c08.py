"""C08 — D: Ecmc.tla per shipped configuration (constants read from the objects the real factory builds);
T: recorded runs judged by TraceEcmc.tla (checks/runlevel.py)."""
from checks import runlevel
from harness import ecmc_design
from harness.build import Scratch


def run(chk):
    with Scratch() as sc:
        from checks import c09
        c09.activator_component(chk, sc)      # a TagActivator that does not hand a running handler to the trash step
        ecmc_design.design_for(chk, sc, "C08")
        runlevel.run_for(chk, "C08", sc)
        # "no candidate survives in the scheduler" over a very long history: trashed candidates must never come back, whatever
        # the scheduler does rarely (counter wrap-around, clean-up of lazily deleted entries)
        from checks import longsched
        longsched.run(chk, sc, "C08")
    # a dumped and resumed run must keep the property: trashed candidates may not come back to life
    from checks import c19
    c19.dump_resume(chk, [c19.PLAN_8_ATOMS] if chk.tier == "quick" else [c19.PLAN_8_ATOMS, dict(c19.PLAN_CROWDED_CELLS, end="9", dumps=None), c19.PLANS["thorough"][-5]], {"C08"})
