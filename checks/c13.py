"""C13 — in-states are isolated copies.  D: StateTree.tla (object-identity model) exhaustively to bounded depth;
R: simulation behaviours over six tree shapes (incl. two-level trees with a single point mass per composite object) replayed into the real TreeStateHandler;  T: run-level clauses."""
import json
import os
from concurrent.futures import ThreadPoolExecutor

from harness import tlc
from harness.build import Scratch, run_py
from harness.common import extract_json

SHAPES = {"12": (1, 2), "20": (2, 0), "23": (2, 3), "13": (1, 3), "21": (2, 1), "31": (3, 1)}


def run(chk):
    chk.assumptions += ["exhaustive exploration bounded in depth (7-8 actions with one extracted branch, 5-6 with two) for the "
                        "shapes 1 root x 2 children and 2 roots x 0 children; field values from small sets",
                        "mutations are applied only to branches the model considers not inserted (after insert the code "
                        "intentionally shares objects with the inserted branch)"]
    quick = chk.tier == "quick"
    with Scratch() as sc:
        for cfg in (["StateTree_Aq.cfg", "StateTree_Bq.cfg", "StateTree_C.cfg"] if quick else
                    ["StateTree_A.cfg", "StateTree_B.cfg", "StateTree_C.cfg"]):
            res = chk.add_tlc("StateTree/" + cfg, tlc.run("StateTree", cfg, sc.sub("d" + cfg), workers=16, timeout=1500))
            for inv in res.violated:
                chk.violation("design:" + inv, "StateTree.tla (%s): %s violated" % (cfg, inv), res.out[-5000:])
        jobs = [(shape, p) for shape in SHAPES for p in range(2 if quick else 6)]
        num = 60 if quick else 400

        def sim(job):
            shape, p = job
            res = tlc.run("StateTreeSim", "StateTreeSim_%s.cfg" % shape, sc.sub("s%s_%d" % (shape, p)), workers=1,
                          simulate="num=%d" % num, depth=41, seed=chk.seed + 100 * p + int(shape), timeout=1200,
                          java_opts=["-XX:ParallelGCThreads=2", "-Xmx2g"])
            return shape, p, res, extract_json(res.out, "BEH")
        with ThreadPoolExecutor(12) as ex:
            results = list(ex.map(sim, jobs))
        by = {}
        for shape, p, res, behs in results:
            chk.add_tlc("StateTreeSim/%s#%d" % (shape, p), res)
            d = by.setdefault(shape, {})
            for b in behs:
                d.setdefault(json.dumps(b, sort_keys=True), b)
        allkinds = {}
        for shape, d in by.items():
            behs = list(d.values())
            if not behs:
                chk.machinery("no behaviours generated for shape " + shape)
                continue
            path = os.path.join(sc.dir, "tree_%s.json" % shape)
            json.dump(dict(nroots=SHAPES[shape][0], nkids=SHAPES[shape][1], behaviours=behs), open(path, "w"))
            r = run_py(sc, ["-m", "harness.replay_tree", path], timeout=1800)
            if r.returncode != 0:
                chk.machinery("replay_tree crashed: " + r.stderr[-1500:])
                continue
            s = json.loads(r.stdout)
            chk.traces += s["behaviours"]
            chk.evaluations += s["steps"]
            for k, v in s["kinds"].items():
                allkinds[k] = allkinds.get(k, 0) + v
            if not chk.samples:
                chk.sample(dict(shape=shape, ops=[o["op"] for o in behs[0][:6]]))
            for f in s["fails"]:
                chk.violation("replay:" + f["what"].split(" after ")[0],
                              "real TreeStateHandler diverges from StateTree.tla (shape %s) at step %d: %s"
                              % (shape, f["step"], f["what"]), dict(fail=f, behaviour=behs[f["behaviour"]][:f["step"] + 1]))
        chk.notes["replayed_op_kinds"] = allkinds
        for need in ("extract", "extract_active", "insert", "mutate_pos", "mutate_vel", "mutate_ts", "rebind_pos", "hand_over",
                     "share", "activate", "deactivate"):
            if not allkinds.get(need):
                chk.machinery("vacuous replay: no %s step" % need)
        from checks import runlevel
        runlevel.run_for(chk, "C13")
