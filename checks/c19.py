"""C19 — a dumped run resumes to exactly the run that was never interrupted.

For each configuration and scheduler: run A (with dumping; every dump file is copied aside by the recorder), run A'
(same seed, dumping tagger removed) and one resumed run B_i per dump (real jellyfysh.resume.main in a fresh process).
  * Lockstep.tla:  A == A' modulo the dumping events;  suffix of A after dump i == B_i with no stutter (float keys).
  * TraceEcmc.tla: A, and the concatenation (A up to dump i) + B_i, must be behaviours of the run-level specification
    (the resumed scheduler may not return trashed events, commits stay fresh, samples stay on the nominal times).
  * D: Heap.tla's Repickle action / PickleRoundTrip invariant (scheduler contents including trashed entries' validity).
"""
import json
import os

from harness import lockstep, runs, tlc
from harness.build import Scratch
from harness.common import extract_printed, plain

P = runs.P
EIGHT = ["RandomInputHandler.number_of_root_nodes=8", "Coulomb.number_event_handlers=8"]
PLAN_8_ATOMS = dict(cfg=P + "coulomb_atoms/power_bounded_dump.ini", sched="heap_scheduler", end="7", interval="1.3", dumps=[1, 3, 4],
                    sets=EIGHT)
# cell configuration with several occupants in nearby cells (the order of handler assignment must survive the dump)
PLAN_CROWDED_CELLS = dict(cfg=P + "coulomb_atoms/cell_veto.ini", sched="heap_scheduler", end="5", interval="1.1", dumps=[1, 3],
                          sets=["RandomInputHandler.number_of_root_nodes=20", "CoulombNearby.number_event_handlers=20",
                                "CoulombSurplus.number_event_handlers=20", "CuboidPeriodicCells.cells_per_side=3, 3, 5"])
# commensurate intervals: sampling, end-of-chain, dumping and end-of-run events with bit-identical times sit in the scheduler
# at the dump points, so the order among equal times has to survive the dump as well
PLAN_TIES = dict(ties=True, cfg=P + "coulomb_atoms/power_bounded_dump.ini", sched="heap_scheduler", end="3", interval="0.3", dumps=[3, 4, 5, 6, 8, 9],
                 sets=["FixedIntervalSamplingEventHandler.sampling_interval=0.5",
                       "SingleIndependentActivePeriodicDirectionEndOfChainEventHandler.chain_time=0.75"])
# dumping events that coincide bit for bit with sampling events (both on multiples of 0.5)
PLAN_TIES_DUMP = dict(PLAN_TIES, end="4", interval="1.0", dumps=None)
# many cells with three and more atoms: several surplus units per cell at the dump points (their order has to survive too)
PLAN_PACKED_CELLS = dict(cfg=P + "coulomb_atoms/cell_veto.ini", sched="heap_scheduler", end="1.3", interval="0.3", dumps=None,
                         sets=["RandomInputHandler.number_of_root_nodes=60", "CoulombNearby.number_event_handlers=60",
                               "CoulombSurplus.number_event_handlers=60", "CuboidPeriodicCells.cells_per_side=4, 4, 4"])
PLANS = {
    "quick": [PLAN_TIES, PLAN_TIES_DUMP, dict(cfg=P + "coulomb_atoms/power_bounded_dump.ini", sched="heap_scheduler", end="80", interval="17.3", dumps=[1, 2, 4]),
              dict(cfg=P + "coulomb_atoms/power_bounded_dump.ini", sched="list_scheduler", end="60", interval="19.7", dumps=[1, 3]),
              dict(cfg=P + "dipoles/dipole_factors_inside_first.ini", sched="heap_scheduler", end="25", interval="3.3", dumps=[2, 5]),
              PLAN_8_ATOMS, PLAN_CROWDED_CELLS],
    "thorough": [dict(PLAN_PACKED_CELLS, end="3.1"), dict(PLAN_PACKED_CELLS, end="3.1", sched="list_scheduler"), dict(PLAN_TIES, dumps=None), PLAN_TIES_DUMP, dict(PLAN_TIES_DUMP, sched="list_scheduler"), dict(PLAN_TIES, dumps=None, sched="list_scheduler"), dict(cfg=P + "coulomb_atoms/power_bounded_dump.ini", sched="heap_scheduler", end="300", interval="19.7", dumps=None),
                 dict(cfg=P + "coulomb_atoms/power_bounded_dump.ini", sched="list_scheduler", end="300", interval="23.1", dumps=None),
                 dict(cfg=P + "coulomb_atoms/cell_veto.ini", sched="heap_scheduler", end="60", interval="7.7", dumps=None),
                 dict(cfg=P + "coulomb_atoms/cell_veto.ini", sched="list_scheduler", end="40", interval="9.1", dumps=None),
                 dict(cfg=P + "dipoles/dipole_factors_inside_first.ini", sched="heap_scheduler", end="60", interval="3.3", dumps=None),
                 dict(cfg=P + "dipoles/dipole_motion.ini", sched="list_scheduler", end="40", interval="4.9", dumps=None),
                 dict(cfg=P + "water/coulomb_cell_veto_lj_cell_veto.ini", sched="heap_scheduler", end="12", interval="2.1", dumps=None),
                 dict(PLAN_8_ATOMS, end="30", dumps=None), dict(PLAN_8_ATOMS, end="30", dumps=None, sched="list_scheduler"),
                 dict(PLAN_CROWDED_CELLS, end="9", dumps=None), dict(PLAN_CROWDED_CELLS, end="9", dumps=None, sched="list_scheduler")],
}


ROUNDTRIP = [
    (P + "coulomb_atoms/cell_veto.ini", ["RandomInputHandler.number_of_root_nodes=150", "CoulombNearby.number_event_handlers=150",
                                         "CoulombSurplus.number_event_handlers=150", "CuboidPeriodicCells.cells_per_side=4, 4, 4"]),
    (P + "coulomb_atoms/cell_bounded.ini", ["RandomInputHandler.number_of_root_nodes=90", "CoulombNearby.number_event_handlers=90",
                                            "CoulombSurplus.number_event_handlers=90", "CoulombCellBounding.number_event_handlers=90",
                                            "SingleProcessMediator.scheduler=list_scheduler"]),
    (P + "dipoles/cell_veto.ini", ["RandomInputHandler.number_of_root_nodes=24", "CoulombNearby.number_event_handlers=24",
                                   "CoulombSurplus.number_event_handlers=24", "Repulsive.number_event_handlers=24"]),
    (P + "water/coulomb_cell_veto_lj_cell_veto.ini", ["RandomInputHandler.number_of_root_nodes=12", "CoulombNearby.number_event_handlers=12",
                                                      "CoulombSurplus.number_event_handlers=12", "LennardJonesNearby.number_event_handlers=12",
                                                      "LennardJonesSurplus.number_event_handlers=12"]),
    (P + "dipoles/dipole_motion.ini", []),
]


def roundtrip(chk):
    """What a dump persists: the live mediator of a (crowded) run and its dill round trip must generate the same in-states in
    the same order, list the same occupants / surplus units in the same order and hold the same scheduler entries."""
    from concurrent.futures import ThreadPoolExecutor
    from harness.build import run_py
    with Scratch() as sc:
        def one(job):
            i, (cfg, sets), seed = job
            args = ["-m", "harness.runjf", "--config", cfg, "--seed", str(seed), "--legs", "60", "--roundtrip", "--trace",
                    os.path.join(sc.sub("rt"), "rt%d_%d.ndjson" % (i, seed)), "--workdir", os.path.join(sc.dir, "rtw%d_%d" % (i, seed))]
            for s_ in sets:
                args += ["--set", s_]
            return cfg, seed, run_py(sc, args, timeout=900)
        jobs = [(i, c, chk.seed % 1000 + k) for i, c in enumerate(ROUNDTRIP) for k in range(2 if chk.tier == "quick" else 8)]
        with ThreadPoolExecutor(8) as ex:
            results = list(ex.map(one, jobs))
        done = 0
        for cfg, seed, r in results:
            try:
                st = json.loads(r.stdout[r.stdout.index("{"):])
            except Exception:
                chk.machinery("round trip run of %s failed: %s" % (cfg, (r.stdout[-300:] + r.stderr[-700:])))
                continue
            rt = st.get("roundtrip")
            if not st.get("ok"):
                if st.get("exc") == "harness":
                    chk.machinery("round trip run of %s: harness failure: %s" % (cfg, st.get("msg")))
                else:
                    chk.violation("run-exception:%s" % st.get("exc"), "run of %s (many particles) terminated by %s: %s"
                                  % (cfg, st.get("exc"), st.get("msg")), st)
                continue
            if not rt or "error" in rt:
                chk.machinery("round trip of %s: %s" % (cfg, rt))
                continue
            done += 1
            chk.evaluations += sum(rt["sizes"].values())
            if not rt["stable"]:
                chk.machinery("fingerprint of the live mediator of %s is not reproducible within one process" % cfg)
            elif rt["difference"]:
                chk.violation("roundtrip:order", "%s seed %d: the mediator loaded from its own dump differs from the live one (what "
                              "resume.py continues from is not what was dumped): %s" % (cfg, seed, rt["difference"]),
                              dict(config=cfg, seed=seed, roundtrip=rt))
        chk.notes["mediator_round_trips_compared"] = done
        if not done:
            chk.machinery("vacuous: no mediator round trip compared")


def run(chk):
    roundtrip(chk)
    dump_resume(chk, PLANS[chk.tier], None)


def dump_resume(chk, plans, only_props):
    """only_props = None: C19 itself (every difference / clause counts); else: report only these properties' clauses of the
    concatenated traces (used by C08: a resumed scheduler must not bring trashed candidates back)."""
    chk.assumptions += ["seeded runs of the listed configurations; dump points are the dumping events of those runs",
                        "legs with exactly equal candidate times are not distinguished (none occurred unless reported)"]
    chk.trusted += ["harness/recorder.py (also persists its interning tables next to each dump copy)", "harness/lockstep.py"]
    with Scratch() as sc:
        res = chk.add_tlc("Heap/Heap_tol.cfg", tlc.run("Heap", "Heap_tol.cfg", sc.sub("heap"), workers=8, timeout=900))
        for inv in res.violated:
            chk.violation("design:" + inv, "Heap.tla: %s violated (pickle round trip of the scheduler)" % inv, res.out[-3000:])
        jobs = []
        for n, p in enumerate(plans):
            sets = ["FinalTimeEndOfRunEventHandler.end_of_run_time=" + p["end"], "SingleProcessMediator.scheduler=" + p["sched"]]
            sets += p.get("sets", [])
            base = dict(config=p["cfg"], seed=chk.seed + n, sets=sets)
            jobs.append(dict(base, name="A%d" % n, extra=["--add-dumping", p["interval"]]))
            jobs.append(dict(base, name="N%d" % n, extra=["--add-dumping", p["interval"], "--remove-tagger", "dumping"]))
        first = runs.record_and_validate(sc, jobs)
        by = {r["job"]["name"]: r for r in first}
        resume_jobs = []
        for n, p in enumerate(plans):
            a = by["A%d" % n]
            for pid_ in (sorted(only_props) if only_props else ["C19"]):
                report(chk, a, pid_, "run with dumping (plan %d)" % n)
                report(chk, by["N%d" % n], pid_, "run without dumping (plan %d)" % n)
            tr = a["trace"]
            k = 1
            while os.path.exists(tr[:-7] + ".dump%d.dat" % k):
                if p["dumps"] is None or k in p["dumps"]:
                    resume_jobs.append(dict(name="B%d_%d" % (n, k), resume=tr[:-7] + ".dump%d.dat" % k, seed=0, validate=False,
                                            plan=n, dump=k))
                k += 1
            chk.notes.setdefault("dumps_written", {})["plan%d" % n] = k - 1
            if k == 1:
                chk.machinery("plan %d (%s): no dump was written" % (n, p["cfg"]))
        second = runs.record_and_validate(sc, resume_jobs, timeout=150 if chk.tier == "quick" else 900)
        # ---- comparisons
        for n, p in enumerate(plans):
            a, nod = by["A%d" % n], by["N%d" % n]
            ra, rn = lockstep.load(a["trace"]), lockstep.load(nod["trace"])
            pa, va = lockstep.tables(ra)
            pn, vn = lockstep.tables(rn)
            ta, tn = lockstep.commit_trace(ra, pa, va), lockstep.commit_trace(rn, pn, vn)
            if p.get("ties"):
                # the order of events with bit-identical times is left open by the schedulers (it depends on the shape of the
                # heap, which the dumping entries change): dump-vs-no-dump is not compared on such plans, resumption is
                ok, detail, res = True, None, None
                chk.notes["tie_plans"] = "dump-vs-no-dump not compared on plans with commensurate intervals (order of equal times)"
            else:
                ok, detail, res = lockstep.compare(sc, "AN%d" % n, ta, tn, ["dumping"])
                chk.add_tlc("Lockstep/A-vs-nodump#%d" % n, res)
                chk.traces += 1
            if ok is None:
                chk.machinery("Lockstep A vs no-dump plan %d: %s" % (n, detail))
            elif not ok and only_props is None:
                chk.violation("lockstep:dump-vs-nodump", "plan %d (%s, %s): the run with dumps does not commit the events of the "
                              "same run without dumping (first difference after %d commits)" % (n, p["cfg"], p["sched"], detail["consumed_b"]), detail)
            for r in second:
                if r["job"]["plan"] != n:
                    continue
                k = r["job"]["dump"]
                if r["run_rc"] == -9:
                    if only_props is not None and "C17" in only_props:
                        chk.violation("resume:hang", "plan %d (%s, %s) dump %d: the resumed run does not end at the configured end of "
                                      "the run (its end-of-run event was lost with the dump)" % (n, p["cfg"], p["sched"], k), dict(plan=p))
                    if only_props is None:
                        chk.violation("resume:hang", "plan %d (%s, %s) dump %d: the resumed run does not reach the end of the run "
                                      "(a pending event of the dumped scheduler was lost)" % (n, p["cfg"], p["sched"], k), dict(plan=p))
                    continue
                if not r["status"].get("ok") and only_props is not None:
                    continue
                if not r["status"].get("ok") and r["status"].get("exc") == "harness":
                    chk.machinery("plan %d dump %d: harness failure in the resumed run: %s" % (n, k, r["status"].get("msg")))
                    continue
                if not r["status"].get("ok"):
                    chk.violation("resume:exception", "plan %d dump %d: resumed run terminated by %s: %s"
                                  % (n, k, r["status"].get("exc"), r["status"].get("msg")), r["status"])
                    continue
                rb = lockstep.load(r["trace"])
                pb, vb = lockstep.tables(rb, pa, va)
                # position in A right after the k-th dump write
                cut = next(i for i, d in enumerate(ra) if d["ev"] == "write" and d.get("dump") == k) + 1
                tb = lockstep.commit_trace(ra[:cut] + rb[1:], pb, vb, meta=ra[0], start=cut)
                tsuffix = lockstep.commit_trace(ra, pa, va, start=cut)
                ok, detail, res = lockstep.compare(sc, "AB%d_%d" % (n, k), tsuffix, tb, [])
                chk.add_tlc("Lockstep/resume#%d.%d" % (n, k), res)
                chk.traces += 1
                if ok is None:
                    chk.machinery("Lockstep resume plan %d dump %d: %s" % (n, k, detail))
                elif not ok and only_props is None:
                    chk.violation("lockstep:resume", "plan %d (%s, %s) dump %d: the resumed run differs from the uninterrupted run "
                                  "after %d commits/samples" % (n, p["cfg"], p["sched"], k, detail["consumed_b"]), detail)
                if len(chk.samples) < 3:
                    chk.sample(dict(plan=p, dump=k, compared_records=detail["len_b"] if isinstance(detail, dict) else None))
                # concatenation must be a behaviour of the run-level specification
                cat = os.path.join(sc.sub("cat"), "cat%d_%d.ndjson" % (n, k))
                with open(cat, "w") as f:
                    for d in ra[:cut]:
                        f.write(json.dumps(d) + "\n")
                    for d in rb[1:]:
                        f.write(json.dumps(d) + "\n")
                rv = tlc.run("TraceEcmc", "TraceEcmc.cfg", sc.sub("cattlc%d_%d" % (n, k)), workers=1, env={"TRACE_FILE": cat},
                             timeout=1500, java_opts=["-XX:ParallelGCThreads=2", "-Xmx3g"])
                chk.add_tlc("TraceEcmc/concat#%d.%d" % (n, k), rv)
                v = [plain(x) for x in extract_printed(rv.out, "VERDICT")]
                if not v:
                    chk.machinery("TraceEcmc on the concatenated trace plan %d dump %d: no verdict" % (n, k))
                    continue
                chk.evaluations += v[-1][0]
                post = [x for x in sorted(v[-1][1], key=lambda x: x[1]) if x[1] > cut and (only_props is None or x[0] in only_props)]
                for prop, line, clause in post[:6]:
                    if True:
                        chk.violation("concat:%s" % clause.split(":")[0],
                                      "plan %d dump %d: after resuming, record %d violates %s %s" % (n, k, line, prop, clause),
                                      dict(plan=p, dump=k))


def report(chk, r, pid, what):
    st = r["status"]
    if r.get("tlc") is not None:
        chk.add_tlc("TraceEcmc/" + r["job"]["name"], r["tlc"])
    if not st.get("ok"):
        if st.get("exc") == "harness":
            chk.machinery("%s: harness failure: %s" % (what, st.get("msg")))
        else:
            chk.violation("run-exception:%s" % st.get("exc"), "%s terminated by %s: %s" % (what, st.get("exc"), st.get("msg")), st)
    v = r.get("verdict")
    if v:
        chk.traces += 1
        chk.evaluations += v[0]
        # the run that writes dumps (and the one that does not) must themselves satisfy the run-level clauses of the property
        # in whose name they are made: a dump must not disturb the run that continues
        shown = 0
        for prop, line, clause in sorted(v[1], key=lambda x: x[1]):
            if prop == pid and pid != "C19" and shown < 2:
                shown += 1
                chk.violation("dumprun:" + clause.split(":")[0], "%s, record %d: %s" % (what, line, clause), dict(job=r["job"]))
