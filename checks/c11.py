"""C11 — occupancy mirrors positions.  D+R: CellOcc.tla (checks/cellocc.py);  T: occupancy vs true cells and the
no-silent-crossing clauses on recorded runs of the cell configurations (checks/runlevel.py)."""
from checks import cellocc
from harness.build import Scratch


def run(chk):
    chk.assumptions += ["component model: 4 units on a periodic ring of 3-6 cells, occupant limits 1, 2, unbounded, charge "
                        "filter on/off, 1-2 neighbour layers; cell geometry itself is C16"]
    with Scratch() as sc:
        cellocc.run(chk, sc, ["Mirror", "ActiveSeparate", "Capacity", "NoEmptySurplusList", "NoUpdateError"])
        from checks import runlevel
        from harness import ecmc_design, runs
        ecmc_design.design_for(chk, sc, "C11", [c for c in runs.SHIPPED if "cell" in c])
        runlevel.run_for(chk, "C11", sc)
