"""C14 — Time keeps resolution and order.  D: Time.tla (lattice, exhaustive);  R: evaluation table replayed into the real
Time with quotient offsets 0, 2^31, 2^52-16;  T: boundary/random doubles judged by TraceTime.tla on F64 keys."""
import json
import os

from harness import tlc
from harness.build import Scratch, run_py
from harness.common import extract_json, extract_printed, plain


def run(chk):
    chk.assumptions += ["exactness is exhaustive on the dyadic lattice (denominator 8, quotients Q0-1..Q0+3) only; "
                        "arbitrary doubles are probed at boundary values and seeded random values",
                        "rounding residuals are measured by the recorder with fractions.Fraction; TraceTime.tla holds the bounds"]
    chk.trusted.append("harness/f64.py key encoding; fractions.Fraction")
    with Scratch() as sc:
        res = chk.add_tlc("Time", tlc.run("Time", "Time.cfg", sc.sub("d"), workers=4, timeout=300))
        for inv in res.violated:
            chk.violation("design:" + inv, "Time.tla: %s violated" % inv, res.out[-4000:])
        rt = chk.add_tlc("TimeTable", tlc.run("Time", "TimeTable.cfg", sc.sub("tab"), workers=1, timeout=300))
        tabs = extract_json(rt.out, "TABLE")
        if not tabs:
            chk.machinery("Time.tla did not print its evaluation table")
            return
        tpath = os.path.join(sc.dir, "table.json")
        json.dump(tabs[0], open(tpath, "w"))
        r = run_py(sc, ["-m", "harness.drive_time", "table", tpath], timeout=900)
        if r.returncode != 0:
            chk.machinery("drive_time table crashed: " + r.stderr[-1500:])
        else:
            s = json.loads(r.stdout)
            chk.evaluations += s["evaluations"]
            chk.traces += 1
            chk.sample(dict(table_sizes={k: len(v) for k, v in tabs[0].items()}, add_row=tabs[0]["adds"][100]))
            for f in s["fails"]:
                chk.violation("replay:%s" % f["what"], "real %s differs from Time.tla on the exact lattice (Q0=%s, args=%s)"
                              % (f["what"], f["q0"], f["args"]), f)
        n = 40 if chk.tier == "quick" else 400
        for k in range(1 if chk.tier == "quick" else 4):
            tr = os.path.join(sc.dir, "time%d.ndjson" % k)
            g = run_py(sc, ["-m", "harness.drive_time", "trace", str(chk.seed + k), str(n), tr], timeout=900)
            if g.returncode != 0:
                chk.violation("trace:exception", "real Time raised on a boundary evaluation", g.stderr[-3000:])
                continue
            rv = chk.add_tlc("TraceTime#%d" % k, tlc.run("TraceTime", "TraceTime.cfg", sc.sub("t%d" % k), workers=1,
                                                         env={"TRACE_FILE": tr}, timeout=1200))
            verdicts = [plain(v) for v in extract_printed(rv.out, "VERDICT")]
            if not verdicts:
                chk.machinery("TraceTime produced no verdict: " + rv.out[-800:])
                continue
            total, viol = verdicts[-1]
            chk.traces += 1
            chk.evaluations += total
            lines = None
            for line, clause in sorted(viol)[:40]:
                if lines is None:
                    lines = open(tr).read().splitlines()
                rec = json.loads(lines[line - 1])
                chk.violation(finding_key(rec, clause), "real Time, trace line %d: %s" % (line, clause), rec)


def finding_key(rec, clause):
    """Key for the known-findings filter: clause + coarse class of the failing input."""
    from harness.f64 import unkey
    if rec["op"] == "addinf":
        t = [unkey(rec["t"][0]), unkey(rec["t"][1])]
        return "trace:%s:t=%s" % (clause, "inf" if t[0] == float("inf") else "finite")
    return "trace:" + clause
