"""C09 — D: Ecmc.tla per shipped configuration (constants read from the objects the real factory builds);
T: recorded runs judged by TraceEcmc.tla (checks/runlevel.py)."""
from checks import runlevel
from harness import ecmc_design
from harness.build import Scratch


ACT_CFG = dict(ntags=3, pool=2, creates={"1": [2, 3], "2": [2], "3": [2, 3]}, trashes={"1": [1], "2": [2], "3": [2, 3]},
               activates={"1": [2, 3], "2": [], "3": [3]}, deactivates={"1": [], "2": [3], "3": []})


def activator_component(chk, sc):
    """D+R: Activator.tla (pool bookkeeping of TagActivator) exhaustively + behaviours replayed into the real TagActivator
    with scripted Tagger subclasses (returned handlers, running / not-running lists, activation flags, errors)."""
    import json
    import os
    from harness import tlc
    from harness.build import run_py
    from harness.common import extract_json
    res = chk.add_tlc("Activator", tlc.run("Activator", "Activator.cfg", sc.sub("act_d"), workers=8, timeout=600))
    for inv in res.violated:
        chk.violation("design:" + inv, "Activator.tla: %s violated" % inv, res.out[-4000:])
    r = chk.add_tlc("ActivatorSim", tlc.run("ActivatorSim", "ActivatorSim.cfg", sc.sub("act_s"), workers=1,
                                            simulate="num=%d" % (150 if chk.tier == "quick" else 1500), depth=26,
                                            seed=chk.seed, timeout=900))
    behs = list({json.dumps(b, sort_keys=True): b for b in extract_json(r.out, "BEH")}.values())
    if not behs:
        chk.machinery("no Activator behaviours generated")
        return
    path = os.path.join(sc.dir, "activator.json")
    json.dump(dict(behaviours=behs, **ACT_CFG), open(path, "w"))
    rr = run_py(sc, ["-m", "harness.replay_activator", path], timeout=900)
    if rr.returncode != 0:
        chk.machinery("replay_activator crashed: " + rr.stderr[-1200:])
        return
    out = json.loads(rr.stdout)
    chk.traces += out["behaviours"]
    chk.evaluations += out["steps"]
    chk.notes["activator_replayed_ops"] = out["kinds"]
    for f in out["fails"]:
        chk.violation("replay:" + f["what"].split(" after ")[0], "real TagActivator diverges from Activator.tla at step %d: %s"
                      % (f["step"], f["what"]), f)
    for need in ("first", "update", "trash", "update:error"):
        if not out["kinds"].get(need):
            chk.machinery("vacuous Activator replay: no %s step" % need)


def run(chk):
    with Scratch() as sc:
        activator_component(chk, sc)
        ecmc_design.design_for(chk, sc, "C09")
        runlevel.run_for(chk, "C09", sc)
