"""C04 — thinning.  T: thinned events of recorded runs judged by TraceEcmc.tla (confirmation rule, no-op on rejection, bound
positive, confirmation rate = proposal rate, domination on visited separations);  T: both potentials evaluated by the real
classes on a lattice of the minimum-image cube (faces, edges, geometric refinement) judged by TraceDomination.tla."""
import json

from checks import runlevel
from harness import opcheck
from harness.build import Scratch, run_py


def run(chk):
    chk.assumptions.append("domination is decided on the lattice points and on the separations visited by the recorded runs; "
                           "the supremum over the continuum of separations is not decided by this technique")
    with Scratch() as sc:
        n = 4 if chk.tier == "quick" else 10
        total = opcheck.key_trace(chk, sc, "TraceDomination", "harness.drive_domination", 0, [chk.seed, n], timeout=3000)
        chk.notes["domination_lattice_points"] = total
        # confirmation rule at its boundary: real handlers, scripted rates, the draw forced next to the decision boundary
        nb = opcheck.key_trace(chk, sc, "TraceThin", "harness.drive_thin", 0, [chk.seed, 3 if chk.tier == "quick" else 40])
        chk.notes["confirmation_boundary_cases"] = nb
        # the configured pairs of every shipped configuration that uses the 1/r bound (prefactors from the .ini files)
        from concurrent.futures import ThreadPoolExecutor
        from harness import runs
        cfgs = [c for c in runs.SHIPPED if "coulomb" in c or "dipoles" in c or "water" in c]
        nn = 2 if chk.tier == "quick" else 6

        def one(c):
            return opcheck.key_trace(chk, sc, "TraceDomination", "harness.drive_domination",
                                     c.split("/")[-2] + "_" + c.split("/")[-1][:-4], [c, chk.seed, nn], mode="config",
                                     timeout=3000)
        with ThreadPoolExecutor(8) as ex:
            pts = list(ex.map(one, cfgs))
        chk.notes["domination_lattice_points_per_configuration"] = dict(zip(cfgs, pts))
        runlevel.run_for(chk, "C04", sc)
