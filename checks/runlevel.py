"""Run-level trace validation shared by the properties judged on recorded runs of the real mediator.

Every property check records its own runs (all runnable shipped configurations + generated variants), validates each
trace with TLC against TraceEcmc.tla (all clauses are evaluated; the check reports the clauses of its own property) and
adds the counts to its evidence."""
import collections
import json
import os

from harness import runs
from harness.build import Scratch

# which record kinds must have occurred for a property's clauses to have been exercised at all (vacuity guard)
NEEDS = {
    "C04": ["thin"], "C05": ["lift"], "C07": ["commit"], "C08": ["commit_interaction"], "C09": ["run"],
    "C10": ["cells"], "C11": ["cells"], "C12": ["c12"], "C13": ["commit", "time"], "C17": ["write_state"],
    "C18": ["cellveto"],
}
CELL_CONFIGS = [c for c in runs.SHIPPED if "cell" in c]
COMPOSITE = [c for c in runs.SHIPPED if "dipole" in c or "water" in c]


def jobs_for(pid, tier, seed):
    quick = tier == "quick"
    legs = 300 if quick else 3000
    seeds = [seed] if quick else [seed, seed + 1, seed + 2]
    configs = list(runs.SHIPPED)
    if pid in ("C10", "C11", "C18"):
        configs = CELL_CONFIGS
        legs = 600 if quick else 5000
    if pid == "C12":
        configs = COMPOSITE
    jobs = []
    for s in seeds:
        for c in configs:
            name = "%s_%s_s%d" % (c.split("/")[-2], c.split("/")[-1][:-4], s)
            sets = ["FinalTimeEndOfRunEventHandler.end_of_run_time=%s" % ("25" if quick else "200")]
            jobs.append(dict(name=name, config=c, seed=s, legs=legs, sets=sets))
    jobs += generated_jobs(pid, tier, seed)
    return jobs


def generated_jobs(pid, tier, seed):
    """Variants of shipped configurations: other scheduler, more particles, other sampling parameters."""
    P = runs.P
    out = []
    legs = 300 if tier == "quick" else 2000
    out.append(dict(name="gen_atoms_list_8", config=P + "coulomb_atoms/power_bounded.ini", seed=seed + 11, legs=legs,
                    sets=["SingleProcessMediator.scheduler=list_scheduler", "RandomInputHandler.number_of_root_nodes=8",
                          "Coulomb.number_event_handlers=8",
                          "FinalTimeEndOfRunEventHandler.end_of_run_time=7.5",
                          "FixedIntervalSamplingEventHandler.sampling_interval=0.3"]))
    out.append(dict(name="gen_atoms_cellveto_24", config=P + "coulomb_atoms/cell_veto.ini", seed=seed + 12, legs=legs * 2,
                    sets=["RandomInputHandler.number_of_root_nodes=24", "FinalTimeEndOfRunEventHandler.end_of_run_time=12",
                          "CoulombNearby.number_event_handlers=24", "CoulombSurplus.number_event_handlers=24"]))
    out.append(dict(name="gen_atoms_cellbounded_12", config=P + "coulomb_atoms/cell_bounded.ini", seed=seed + 13, legs=legs * 2,
                    sets=["RandomInputHandler.number_of_root_nodes=12", "FinalTimeEndOfRunEventHandler.end_of_run_time=12",
                          "CoulombNearby.number_event_handlers=12", "CoulombSurplus.number_event_handlers=12",
                          "CoulombCellBounding.number_event_handlers=12"]))
    out.append(dict(name="gen_dipoles_cellveto_6", config=P + "dipoles/cell_veto.ini", seed=seed + 14, legs=legs * 2,
                    sets=["RandomInputHandler.number_of_root_nodes=6", "FinalTimeEndOfRunEventHandler.end_of_run_time=12",
                          "CoulombNearby.number_event_handlers=6", "CoulombSurplus.number_event_handlers=6",
                          "Repulsive.number_event_handlers=6"]))
    out.append(dict(name="gen_motion_zero_first", config=P + "dipoles/dipole_motion.ini", seed=seed + 15, legs=legs * 2,
                    sets=["FixedIntervalSamplingEventHandler.first_event_time_zero=True",
                          "FixedIntervalSamplingEventHandler.sampling_interval=0.07",
                          "FinalTimeEndOfRunEventHandler.end_of_run_time=9.3"]))
    out.append(dict(name="gen_water_cellveto_4", config=P + "water/coulomb_cell_veto_lj_cell_veto.ini", seed=seed + 16,
                    legs=legs, sets=["RandomInputHandler.number_of_root_nodes=4",
                                     "FinalTimeEndOfRunEventHandler.end_of_run_time=6",
                                     "CoulombNearby.number_event_handlers=4", "CoulombSurplus.number_event_handlers=4",
                                     "LennardJonesNearby.number_event_handlers=4",
                                     "LennardJonesSurplus.number_event_handlers=4"]))
    out.append(dict(name="gen_atoms_cellveto_crowded", config=P + "coulomb_atoms/cell_veto.ini", seed=seed + 21, legs=legs * 2,
                    sets=["RandomInputHandler.number_of_root_nodes=36", "FinalTimeEndOfRunEventHandler.end_of_run_time=12",
                          "CuboidPeriodicCells.cells_per_side=3, 3, 5", "SingleProcessMediator.scheduler=list_scheduler",
                          "CoulombNearby.number_event_handlers=36", "CoulombSurplus.number_event_handlers=36"]))
    out.append(dict(name="gen_atoms_cellbounded_negfilter", config=P + "coulomb_atoms/cell_bounded.ini", seed=seed + 22, legs=legs,
                    sets=["SingleActiveCellOccupancy.charge=electric_charge", "ElectricChargeValues.charge_values=-1",
                          "RandomInputHandler.number_of_root_nodes=5", "FinalTimeEndOfRunEventHandler.end_of_run_time=12",
                          "CoulombNearby.number_event_handlers=5", "CoulombSurplus.number_event_handlers=5",
                          "CoulombCellBounding.number_event_handlers=5"]))
    out.append(dict(name="gen_dipoles_cellbounded_6", config=P + "dipoles/cell_bounded.ini", seed=seed + 23, legs=legs * 2,
                    sets=["RandomInputHandler.number_of_root_nodes=6", "FinalTimeEndOfRunEventHandler.end_of_run_time=12",
                          "CoulombNearby.number_event_handlers=6", "CoulombSurplus.number_event_handlers=6",
                          "CoulombCellBounding.number_event_handlers=6", "Repulsive.number_event_handlers=6"]))
    out.append(dict(name="gen_atoms_cellveto_speed", config=P + "coulomb_atoms/cell_veto.ini", seed=seed + 17, legs=legs,
                    sets=["InitialChainStartOfRunEventHandler.speed=2.5", "FinalTimeEndOfRunEventHandler.end_of_run_time=6"]))
    cfgdir = os.path.join(os.path.dirname(os.path.dirname(os.path.abspath(__file__))), "harness", "configs")
    out.append(dict(name="gen_cuboid_cells_soft", config=os.path.join(cfgdir, "cuboid_cells_soft.ini"), seed=seed + 18,
                    legs=legs * 3, sets=[]))
    HD = ["InputOutputHandler.input_handler=random_input_handler", "RandomInputHandler.random_node_creator=dipole_random_node_creator",
          "DipoleRandomNodeCreator.min_initial_dipole_separation=0.96", "DipoleRandomNodeCreator.max_initial_dipole_separation=1.04",
          "DipoleRandomNodeCreator.charge_values=electric_charge_values (charge_values)",
          "FinalTimeEndOfRunEventHandler.end_of_run_time=400"]
    out.append(dict(name="gen_hd_dipoles_3", config="config_files/hard_disk_dipoles/hard_disk_dipoles.ini", seed=seed + 19,
                    legs=legs * 2, sets=HD + ["RandomInputHandler.number_of_root_nodes=3",
                                              "SingleIndependentActiveSequentialDirectionEndOfChainEventHandler.chain_time=1.3"]))
    out.append(dict(name="gen_hd_dipoles_cells_4", config="config_files/hard_disk_dipoles/hard_disk_dipoles_cells.ini",
                    seed=seed + 20, legs=legs * 2, sets=HD + ["RandomInputHandler.number_of_root_nodes=4"]))
    if pid in ("C06", "C08", "C09"):
        # the heap scheduler's deletion counters wrap around 2^32 during the recorded legs (state after ~2^32 trashes)
        out.append(dict(name="gen_atoms_counter_wrap", config=P + "coulomb_atoms/power_bounded.ini", seed=seed + 31, legs=legs * 2,
                        sets=["RandomInputHandler.number_of_root_nodes=6", "Coulomb.number_event_handlers=6",
                              "FinalTimeEndOfRunEventHandler.end_of_run_time=40"], extra=["--preset-counters", "23"]))
        out.append(dict(name="gen_cellveto_counter_wrap", config=P + "coulomb_atoms/cell_veto.ini", seed=seed + 32, legs=legs * 2,
                        sets=["RandomInputHandler.number_of_root_nodes=12", "FinalTimeEndOfRunEventHandler.end_of_run_time=40",
                              "CoulombNearby.number_event_handlers=12", "CoulombSurplus.number_event_handlers=12"],
                        extra=["--preset-counters", "23"]))
    if pid == "C17":
        # runs that reach their configured end, so that the count / end-time clauses are evaluated
        for n, (cfg, end, interval) in enumerate(((P + "dipoles/dipole_motion.ini", "7.3", "0.21"),
                                                  (P + "coulomb_atoms/power_bounded.ini", "9.1", "0.37"),
                                                  (P + "water/single_molecule.ini", "3.2", "0.11"))):
            out.append(dict(name="gen_c17_end%d" % n, config=cfg, seed=seed + 20 + n, legs=None,
                            sets=["FinalTimeEndOfRunEventHandler.end_of_run_time=" + end]))
    if pid in ("C10", "C11", "C18"):
        out = [j for j in out if "cell" in j["name"]]
    if pid == "C12":
        out = [j for j in out if "dipole" in j["name"] or "water" in j["name"] or "motion" in j["name"]]
    return out


def trace_stats(path):
    c = collections.Counter()
    meta = None
    for line in open(path):
        d = json.loads(line)
        c[d["ev"]] += 1
        if d["ev"] == "init":
            meta = d
        elif d["ev"] == "out":
            c["thin"] += len(d["sub"]["thin"])
            c["lift"] += len(d["sub"]["lift"])
            c["thin_confirmed"] += sum(1 for t in d["sub"]["thin"] if t["drawn"])
        elif d["ev"] == "time":
            c["cellveto"] += 1 if "cellveto" in d["sub"] else 0
        elif d["ev"] == "run":
            c["cells"] += len(d["cells"])
            c["surplus_nonempty"] += sum(1 for x in d["cells"] if x["surplus"])
        elif d["ev"] == "commit":
            c["c12"] += len(d.get("c12", []))
        elif d["ev"] == "write":
            c["write_state"] += 1 if d["kind"] == "state" else 0
        elif d["ev"] == "next" and meta is not None:
            kind = None
            if d["hid"]:
                tag = meta["handlers"][d["hid"] - 1]["tag"]
                kind = meta["taggers"][tag - 1]["kind"]
                c["commit_kind_" + kind] += 1
                if kind in ("factor_map", "excluded_cells", "surplus_cells", "cell_bounding", "cell_veto"):
                    c["commit_interaction"] += 1
    return c


def run_for(chk, pid, sc=None):
    if sc is None:
        with Scratch() as sc2:
            return run_for(chk, pid, sc2)
    jobs = jobs_for(pid, chk.tier, chk.seed)
    results = runs.record_and_validate(sc, jobs)
    total = collections.Counter()
    chk.trusted += ["harness/recorder.py (class-level wrappers, interning, exact-rational residuals)",
                    "harness/f64.py key encoding"]
    chk.assumptions.append("run-level clauses hold on the recorded legs of the listed runs (seeded), not on all histories")
    for r in results:
        name = r["job"]["name"]
        st = r["status"]
        if r.get("tlc") is not None:
            chk.add_tlc("TraceEcmc/" + name, r["tlc"])
        if not st.get("ok"):
            if st.get("exc") == "harness":
                chk.machinery("run %s: harness failure: %s" % (name, st.get("msg")))
            else:
                chk.violation("run-exception:%s" % st.get("exc"),
                              "real run %s terminated by %s: %s" % (name, st.get("exc"), st.get("msg")),
                              dict(job=r["job"], tb=st.get("tb")))
        v = r.get("verdict")
        if v is None:
            if st.get("ok"):
                chk.machinery("run %s: trace not validated (%s)" % (name, r.get("tlc").error if r.get("tlc") else "no trace"))
            continue
        nlines, viol = v
        chk.traces += 1
        chk.evaluations += nlines
        stats = trace_stats(r["trace"])
        total.update(stats)
        mine = sorted(x for x in viol if x[0] == pid)
        if mine:
            lines = open(r["trace"]).read().splitlines()
            keep = os.path.join(os.path.dirname(os.path.dirname(os.path.abspath(__file__))), "out", "traces")
            os.makedirs(keep, exist_ok=True)
            kept = os.path.join(keep, "%s_%s.ndjson" % (pid, name))
            with open(kept, "w") as f:
                f.write("\n".join(lines[:mine[0][1] + 5]) + "\n")
            for p, line, clause in mine:
                rec = json.loads(lines[line - 1])
                chk.violation("trace:" + clause.split(":")[0],
                              "run %s, record %d (%s): %s" % (name, line, rec["ev"], clause),
                              dict(job=r["job"], record=rec, trace_prefix=kept, total_for_property=len(mine)))
        if len(chk.samples) < 2:
            chk.sample(dict(run=name, records=nlines, counts={k: stats[k] for k in sorted(stats) if stats[k]}))
    chk.notes["run_record_counts"] = dict(total)
    for need in NEEDS.get(pid, []):
        if not total.get(need):
            chk.machinery("vacuous: no '%s' records in any recorded run for %s" % (need, pid))
