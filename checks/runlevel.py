"""Run-level trace validation shared by the properties judged on recorded runs (built incrementally)."""


def run_for(chk, pid, sc=None):
    return
