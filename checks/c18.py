"""C18 — cell-veto proposals.  D: Walker.tla (alias table: row mass, cell probability, zero-rate cells);  R: every rate
vector on the real Walker (all rows x all interior draws; scaled by 2^-20, 1, 2^20);  T: cell-veto records of real runs
(target cell = translate(active cell, sampled offset), bound used, walker sign) in checks/runlevel.py."""
from harness import opcheck
from harness.build import Scratch


def run(chk):
    chk.assumptions += ["integer rate vectors of length <= 4 (quick) / 5 (thorough) over 0..3; the second draw at the mid-point "
                        "of every unit piece of (0, mean); magnitudes scaled by 2^-20, 1, 2^20"]
    with Scratch() as sc:
        cfg = "Walker5.cfg" if chk.tier == "thorough" else "Walker.cfg"
        tab = opcheck.design_and_table(chk, sc, "Walker", cfg, "harness.drive_lifting", workers=8, timeout=1500, mode="walker",
                                       keyfn=lambda f: "endpoint:zero-rate-selected" if f["what"].startswith("endpoint") else "replay:" + f["what"])
        if tab:
            chk.sample(tab["vectors"][len(tab["vectors"]) // 3])
        from checks import runlevel
        runlevel.run_for(chk, "C18")
