"""C18 — cell-veto proposals.  D: Walker.tla (alias table: row mass, cell probability, zero-rate cells);  R: every rate
vector on the real Walker (all rows x all interior draws; scaled by 2^-20, 1, 2^20);  T: cell-veto records of real runs
(target cell = translate(active cell, sampled offset), bound used, walker sign) in checks/runlevel.py;  R (handler): the real
LeafUnitCellVetoEventHandler on a ring of six cells with scripted stored bounds (pairs of Walker.tla vectors, non-positive bound
where a vector has a zero), both signs of the charge factor: per-offset masses, target cell, confirmation bound, proposal time."""
from harness import opcheck
from harness.build import Scratch


def run(chk):
    chk.assumptions += ["integer rate vectors of length <= 4 (quick) / 5 (thorough) over 0..3; the second draw at the mid-point "
                        "of every unit piece of (0, mean); magnitudes scaled by 2^-20, 1, 2^20"]
    with Scratch() as sc:
        cfg = "Walker5.cfg" if chk.tier == "thorough" else "Walker.cfg"
        tab = opcheck.design_and_table(chk, sc, "Walker", cfg, "harness.drive_lifting", workers=8, timeout=1500, mode="walker",
                                       keyfn=lambda f: "endpoint:zero-rate-selected" if f["what"].startswith("endpoint") else "replay:" + f["what"])
        if tab:
            chk.sample(tab["vectors"][len(tab["vectors"]) // 3])
            # the handler around the table: both signs of the charge factor, stored bounds scripted from pairs of model vectors
            import json
            import os
            from harness.build import run_py
            tpath = os.path.join(sc.dir, "table_Walker.json")
            r = run_py(sc, ["-m", "harness.drive_lifting", "veto", tpath, "150" if chk.tier == "quick" else "2000"], timeout=1500)
            if r.returncode != 0 and opcheck._is_machinery(r.stderr):
                chk.machinery("cell-veto handler driver failed to start: " + r.stderr[-800:])
            elif r.returncode != 0:
                chk.violation("veto:exception", "real cell-veto handler raised while proposing from scripted bounds", r.stderr[-3000:])
            else:
                v = json.loads(r.stdout)
                chk.evaluations += v["evaluations"]
                chk.notes["cell_veto_handler_proposals_replayed"] = v["evaluations"]
                if not v["evaluations"]:
                    chk.machinery("vacuous: no cell-veto proposal was replayed")
                for f in v["fails"]:
                    chk.violation("veto:" + f["what"], "real cell-veto handler differs from Walker.tla / the stored bounds: " + f["detail"], f)
        from checks import runlevel
        runlevel.run_for(chk, "C18")
