"""C12 — D+R: Motion.tla (bookkeeping of the event handlers, checks/motion.py);  T: recorded runs judged by TraceEcmc.tla."""
from checks import motion, runlevel
from harness.build import Scratch


def run(chk):
    with Scratch() as sc:
        motion.run(chk, sc)
        from checks import initcfg
        initcfg.run(chk, sc, "C12")          # the initial molecules as the real input handlers generate them
        runlevel.run_for(chk, "C12", sc)
