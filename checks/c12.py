"""C12 — judged on recorded runs of the real mediator by TraceEcmc.tla (checks/runlevel.py)."""
from checks import runlevel


def run(chk):
    runlevel.run_for(chk, "C12")
