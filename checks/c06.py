"""C06 — scheduler yields a live event with the smallest time.

D: Heap.tla (array-level transcription of heap.c + HeapScheduler) exhaustively, all invariants, refinement to SchedAbs.
R: TLC simulation behaviours of HeapSim replayed into the real cffi heap / HeapScheduler / ListScheduler / pickle+dill.
T: long histories executed on the real HeapScheduler, validated by TLC against TraceHeap.tla; the same histories are run
   through heap.c compiled with ASan+UBSan.
"""
import json
import os
import subprocess
from concurrent.futures import ThreadPoolExecutor

from harness import tlc
from harness.build import Scratch, run_py
from harness.common import extract_json, extract_printed, plain

EXHAUSTIVE = {"quick": ["Heap_small.cfg", "Heap_grow.cfg", "Heap_tol.cfg"],
              "thorough": ["Heap_small.cfg", "Heap_grow.cfg", "Heap_tol.cfg", "Heap_h3.cfg"]}
SIMS = {  # cfg, parallel TLC processes, behaviours per process, depth
    "quick": [("HeapSim_small.cfg", 6, 150, 40), ("HeapSim_mid.cfg", 6, 60, 80), ("HeapSim_tol.cfg", 2, 100, 40)],
    "thorough": [("HeapSim_small.cfg", 16, 600, 40), ("HeapSim_mid.cfg", 16, 150, 80), ("HeapSim_tol.cfg", 8, 200, 40)],
}
SIMCONST = {"HeapSim_small.cfg": dict(max_counter=1, nhandlers=3, tolerant=False),
            "HeapSim_mid.cfg": dict(max_counter=2, nhandlers=6, tolerant=False),
            "HeapSim_tol.cfg": dict(max_counter=1, nhandlers=3, tolerant=True)}


def run(chk):
    chk.assumptions += [
        "environment respects the mediator protocol: at most one live event per handler (Tolerant configs also trash "
        "handlers without live event)",
        "exhaustive constants: 2-3 handlers, 2-4 finite times + inf, InitSize 3 (sizes 3/6/12), MaxCounter 1-2; memory "
        "safety at the real InitSize 64 is covered by the ASan replay of long histories, not by the exhaustive model",
        "replay maps model counters to real counters next to 2^32-1 by pre-seeding _minimal_valid_counter",
    ]
    with Scratch() as sc:
        # ------------------------------------------------------------------ D
        def exhaustive(cfg):
            return cfg, tlc.run("Heap", cfg, sc.sub("d_" + cfg), workers=16, timeout=1500,
                                coverage=(chk.tier == "thorough"))
        if True:
            for cfg, res in map(exhaustive, EXHAUSTIVE[chk.tier]):
                chk.add_tlc("Heap/" + cfg, res)
                for inv in res.violated:
                    chk.violation("design:%s:%s" % (cfg, inv), "Heap.tla (%s): %s violated in the model" % (cfg, inv),
                                  res.out[-6000:])
        # ------------------------------------------------------------------ R
        jobs = []
        for cfg, procs, num, depth in SIMS[chk.tier]:
            for p in range(procs):
                jobs.append((cfg, p, num, depth))

        def simulate(job):
            cfg, p, num, depth = job
            res = tlc.run("HeapSim", cfg, sc.sub("s_%s_%d" % (cfg, p)), workers=1, simulate="num=%d" % num,
                          depth=depth, seed=chk.seed + 1000 * p + 7, timeout=1200,
                          java_opts=["-XX:ParallelGCThreads=2", "-Xmx2g"])
            behs = extract_json(res.out, "BEH")
            return cfg, p, res, behs
        total_beh = 0
        with ThreadPoolExecutor(16) as ex:
            results = list(ex.map(simulate, jobs))
        bycfg = {}
        for cfg, p, res, behs in results:
            chk.add_tlc("HeapSim/%s#%d" % (cfg, p), res)
            seen = bycfg.setdefault(cfg, {})
            for b in behs:
                seen.setdefault(json.dumps(b, sort_keys=True), b)
        for cfg, behs in bycfg.items():
            behs = list(behs.values())
            if not behs:
                chk.machinery("no behaviours generated for " + cfg)
                continue
            path = os.path.join(sc.dir, "beh_%s.json" % cfg)
            const = SIMCONST[cfg]
            json.dump(dict(behaviours=behs, rdiv=4.0, **const), open(path, "w"))
            from checks import c06_trace as _t
            _t.asan_behaviours(chk, sc, cfg, behs, const)
            r = run_py(sc, ["-m", "harness.replay_heap", path], timeout=1800)
            if r.returncode < 0 and r.returncode != -9:
                # killed by a signal (SIGSEGV, SIGABRT, ...): the C code under replay performed an invalid access
                chk.violation("replay:signal", "the real scheduler crashed the process (signal %d) while replaying the behaviours of %s: "
                              "invalid memory access in the C heap" % (-r.returncode, cfg), dict(config=cfg, stderr=r.stderr[-1500:]))
                continue
            if r.returncode != 0:
                chk.machinery("replay_heap crashed: " + r.stderr[-1500:])
                continue
            summ = json.loads(r.stdout)
            total_beh += summ["behaviours"]
            chk.traces += summ["behaviours"]
            chk.evaluations += summ["steps"]
            chk.notes.setdefault("replayed_op_kinds", {})[cfg] = summ["kinds"]
            if chk.samples == [] and behs:
                chk.sample(dict(config=cfg, behaviour_prefix=[b["op"] for b in behs[0][:8]]))
            for d in summ.get("drift", []):
                chk.notes.setdefault("transcription_drift", []).append("%s: behaviour %d step %d: %s" % (cfg, d["behaviour"], d["step"], d["what"]))
            for f in summ["fails"]:
                chk.violation("replay:%s:%s" % (cfg, f["what"]),
                              "real scheduler diverges from Heap.tla behaviour at step %d: %s" % (f["step"], f["what"]),
                              dict(fail=f, behaviour=behs[f["behaviour"]], config=cfg, const=const))
            # vacuity: the overflow branch and every error kind must have been replayed
            kinds = summ["kinds"]
            for need in ("get:none", "get:empty", "get:decreasing", "repickle:none", "trash:none", "push:none"):
                if not kinds.get(need):
                    chk.machinery("vacuous replay for %s: no %s step" % (cfg, need))
            if not any(any(e > 0 for e in b[-1]["era"]) for b in behs):
                chk.machinery("vacuous replay for %s: counter overflow never reached" % cfg)
        # ------------------------------------------------------------------ T + ASan
        from checks import c06_trace
        c06_trace.run(chk, sc)
        # one history of millions of trashes (whatever the implementation does rarely has happened), windows judged by TLC
        from checks import longsched
        longsched.run(chk, sc, "C06")
