"""C20 — the multi-process mediator commits what the single-process mediator commits.

D: MultiProc.tla (mediator + one worker per handler, non-atomic or-event, pre-computed out-states used and discarded):
   no MediatorError / assert site reachable, committed out-state computed from the current in-state, pipes clean at start,
   semaphore bound, no deadlock, every run completes (weak fairness), for cores 2, 3, 4 and 2-3 legs; thorough tier also
   4 handlers, cores 2-4, 2 legs (safety only: the liveness graph of ~10^7 states does not fit the tier).
T: real runs under the multi-process mediator with per-handler random streams under controlled schedules (a shim around
   connection.wait reports harness-chosen subsets/orders of the ready pipes; workers answer with harness-chosen delays),
   each compared with the single-process run by Lockstep.tla (no stutter); a hang, an exception or a worker process left
   behind is a violation.
"""
import json
import os
import random

from harness import lockstep, runs, tlc
from harness.build import Scratch
from harness.common import extract_printed, plain

SOFT = ["Coulomb.event_handler=two_leaf_unit_event_handler", "TwoLeafUnitEventHandler.potential=inverse_power_potential",
        "InversePowerPotential.prefactor=1.0", "InversePowerPotential.power=2", "HypercubicSetting.beta=2"]
DESIGN = {"quick": ["MultiProc_3.cfg", "MultiProc_3c2.cfg", "MultiProc_3c4.cfg"],
          "thorough": ["MultiProc_3.cfg", "MultiProc_3c2.cfg", "MultiProc_3c4.cfg", "MultiProc_3x3.cfg", "MultiProc_4s.cfg", "MultiProc_4sc4.cfg",
                       "MultiProc_4sc2.cfg", "MultiProc_4sc2x3.cfg"]}


def run(chk):
    quick = chk.tier == "quick"
    chk.assumptions += ["model: 3 handlers, cores 2-4, 2-3 legs (thorough: also 4 handlers, cores 2-4, 2 legs, safety only), activator/scheduler as nondeterministic environment",
                        "runs: soft-sphere atoms (out-state computation draws no random numbers), 3-4 atoms, per-handler "
                        "random streams; schedules are sampled (policies x delays x cores), not all interleavings"]
    chk.trusted += ["harness/recorder.py per-handler streams and the connection.wait shim (reports a subset of the really "
                    "ready pipes, a legal result of connection.wait)", "harness/lockstep.py"]
    rnd = random.Random(chk.seed)
    with Scratch() as sc:
        for cfg in DESIGN[chk.tier]:
            res = chk.add_tlc("MultiProc/" + cfg, tlc.run("MultiProc", cfg, sc.sub("d_" + cfg), workers=16, timeout=1500))
            for inv in res.violated:
                chk.violation("design:" + inv, "MultiProc.tla (%s): %s violated" % (cfg, inv), res.out[-6000:])
        plans = []
        for n_atoms, end in ((3, "2.5"), (4, "3.5")):
            sets = SOFT + ["RandomInputHandler.number_of_root_nodes=%d" % n_atoms, "Coulomb.number_event_handlers=%d" % (n_atoms - 1),
                           "FinalTimeEndOfRunEventHandler.end_of_run_time=" + end,
                           "FixedIntervalSamplingEventHandler.sampling_interval=0.4"]
            plans.append((n_atoms, sets))
        # composite objects: two dipoles with the pair factors between point masses that need no thinning (harmonic, repulsive);
        # the branches of composite objects travel through the pipes (pickling of Node trees, weights)
        DIPOLES = (None, ["FinalTimeEndOfRunEventHandler.end_of_run_time=0.8", "FixedIntervalSamplingEventHandler.sampling_interval=0.2"])
        plans.append(DIPOLES)
        jobs = []
        nsched = 10 if quick else 60
        for pi, (n_atoms, sets) in enumerate(plans):
            base = dict(config=runs.P + "coulomb_atoms/power_bounded.ini", seed=chk.seed + pi, sets=sets)
            pre = []
            if n_atoms is None:
                base = dict(config=runs.P + "dipoles/atom_factors.ini", seed=chk.seed + pi, sets=sets)
                pre = ["--remove-tagger", "coulomb"]
            jobs.append(dict(base, name="single%d" % pi, extra=pre + ["--streams", "5"], plan=pi))
            nh = (n_atoms - 1) + 4 if n_atoms else 10
            for k in range(nsched):
                cores = rnd.choice([2, 3, 3, 4, 16])
                policy = rnd.choice(["native", "linger", "reverse", "shuffle", "one"])
                delays = {}
                for h in range(1, nh + 1):
                    if rnd.random() < 0.5:
                        delays[str(h)] = [rnd.choice([0, 0, 0.01, 0.03]), rnd.choice([0, 0, 0.02, 0.05]),
                                          rnd.choice([0, 0, 0, 0.04, 0.08])]
                sched = dict(policy=policy, seed=rnd.randint(0, 10 ** 6), delays=delays)
                jobs.append(dict(base, name="multi%d_%d" % (pi, k), validate=False, plan=pi, cores=cores, sched=sched,
                                 extra=pre + ["--streams", "5", "--multi", str(cores), "--schedule", json.dumps(sched)]))
        # systematic part: every script over {0,1,2}^D for the choice points of the first legs (3 cores, pre-computation on)
        import itertools
        depth = 3 if quick else 5
        base = dict(config=runs.P + "coulomb_atoms/power_bounded.ini", seed=chk.seed, sets=plans[0][1])
        for script in itertools.product(range(3), repeat=depth):
            sched = dict(policy="script", seed=0, delays={}, script=list(script))
            jobs.append(dict(base, name="script_" + "".join(map(str, script)), validate=False, plan=0, cores=3, sched=sched,
                             extra=["--streams", "5", "--multi", "3", "--schedule", json.dumps(sched)]))
        results = runs.record_and_validate(sc, jobs, workers=8, timeout=90)
        ref = {}
        for r in results:
            if r["job"]["name"].startswith("single"):
                if not r["status"].get("ok") or not r.get("verdict"):
                    chk.machinery("single-process reference run failed: %s" % r["status"])
                    return
                if r.get("tlc") is not None:
                    chk.add_tlc("TraceEcmc/" + r["job"]["name"], r["tlc"])
                recs = lockstep.load(r["trace"])
                p, v = lockstep.tables(recs)
                ref[r["job"]["plan"]] = lockstep.commit_trace(recs, p, v)
        stage_records = 0
        multi = [r for r in results if not r["job"]["name"].startswith("single")]

        def judge(r):
            """TLC runs for one multi-process run (executed in a thread pool); returns what the main thread reports."""
            import os
            from harness.common import extract_printed, plain
            job = r["job"]
            out = dict(r=r, stage=None, stage_tlc=None, lock=None)
            if os.path.exists(r["trace"]) and os.path.getsize(r["trace"]) > 0:
                if r["run_rc"] != 0 or not r["status"].get("ok"):
                    good = []
                    for line in open(r["trace"]):       # a killed run may have left a partial last line
                        try:
                            json.loads(line)
                            good.append(line if line.endswith("\n") else line + "\n")
                        except Exception:
                            break
                    open(r["trace"], "w").writelines(good)
                sv = tlc.run("TraceMedStage", "TraceMedStage.cfg", sc.sub("ms_" + job["name"]), workers=1,
                             env={"TRACE_FILE": r["trace"]}, timeout=600, java_opts=["-XX:ParallelGCThreads=2", "-Xmx2g"])
                out["stage_tlc"] = sv
                vs = [plain(x) for x in extract_printed(sv.out, "VERDICT")]
                out["stage"] = vs[-1] if vs else None
            if r["run_rc"] == 0 and r["status"].get("ok"):
                recs = lockstep.load(r["trace"])
                p, v = lockstep.tables(recs)
                tb = lockstep.commit_trace(recs, p, v)
                out["children"] = recs[-1].get("children", 0)
                out["lock"] = lockstep.compare(sc, job["name"], ref[job["plan"]], tb, []) + (len(tb),)
            return out
        from concurrent.futures import ThreadPoolExecutor
        with ThreadPoolExecutor(8) as ex:
            judged = list(ex.map(judge, multi))
        for jd in judged:
            r = jd["r"]
            job = r["job"]
            desc = "cores=%d policy=%s delays=%s script=%s" % (job["cores"], job["sched"]["policy"], job["sched"]["delays"],
                                                               job["sched"].get("script"))
            if jd["stage_tlc"] is not None:
                chk.add_tlc("TraceMedStage/" + job["name"], jd["stage_tlc"])
                if jd["stage"] is None:
                    chk.machinery("TraceMedStage %s: no verdict: %s" % (job["name"], jd["stage_tlc"].error or jd["stage_tlc"].out[-300:]))
                else:
                    stage_records += jd["stage"][0]
                    for prop, line, clause in sorted(jd["stage"][1], key=lambda x: x[1])[:3]:
                        chk.violation("stage:" + clause, "multi-process run, record %d: %s (%s)" % (line, clause, desc), dict(job=job))
            st = r["status"]
            if r["run_rc"] == -9:
                chk.violation("hang", "multi-process run did not finish within 90 s (deadlock): " + desc, dict(job=job))
                continue
            if not st.get("ok") and st.get("exc") == "harness":
                chk.machinery("multi-process run: harness failure: %s (%s)" % (st.get("msg"), desc))
                continue
            if not st.get("ok"):
                chk.violation("run-exception:%s" % st.get("exc"), "multi-process run terminated by %s (%s): %s"
                              % (st.get("exc"), st.get("msg"), desc), dict(job=job, tb=st.get("tb")))
                continue
            if jd.get("children", 0) != 0:
                chk.violation("children", "worker processes left behind after post_run: " + desc, dict(job=job))
            ok, detail, res, ntb = jd["lock"]
            chk.add_tlc("Lockstep/" + job["name"], res)
            chk.traces += 1
            chk.evaluations += ntb
            if ok is None:
                chk.machinery("Lockstep %s: %s" % (job["name"], detail))
            elif not ok:
                chk.violation("lockstep:multi-vs-single", "multi-process run commits other events / samples than the "
                              "single-process run after %d records: %s" % (detail["consumed_b"], desc), dict(job=job, detail=detail))
            if len(chk.samples) < 3:
                chk.sample(dict(schedule=job["sched"], cores=job["cores"], compared_records=ntb))
        # ---- worker side: every worker's log of synchronisation operations is a path through MultiProc!W(h) (TraceWorker.tla)
        import glob
        batches, cur, nops = [], [], 0
        for r in multi:
            files = sorted(glob.glob(r["trace"] + ".w*"))
            if files:
                cur.append((r, files))
            if len(cur) >= 8:
                batches.append(cur)
                cur = []
        if cur:
            batches.append(cur)

        def worker_batch(bi):
            path = os.path.join(sc.sub("wk"), "workers_%d.ndjson" % bi)
            index = []
            with open(path, "w") as f:
                nw = sum(len(files) for _, files in batches[bi])
                f.write(json.dumps(dict(op="meta", nw=nw, w=0)) + "\n")
                for r, files in batches[bi]:
                    for wf in files:
                        index.append((r["job"]["name"], wf))
                        for line in open(wf):
                            try:
                                d = json.loads(line)
                            except Exception:
                                break                      # partial last line of a killed worker
                            d["w"] = len(index)
                            d.setdefault("tin", 0)
                            d.setdefault("tout", 0)
                            f.write(json.dumps(d) + "\n")
            rv = tlc.run("TraceWorker", "TraceWorker.cfg", sc.sub("wk_tlc%d" % bi), workers=1, env={"TRACE_FILE": path},
                         timeout=900, java_opts=["-XX:ParallelGCThreads=2", "-Xmx3g"])
            return bi, path, index, rv
        with ThreadPoolExecutor(6) as ex:
            wres = list(ex.map(worker_batch, range(len(batches))))
        worker_ops = 0
        for bi, path, index, rv in wres:
            chk.add_tlc("TraceWorker#%d" % bi, rv)
            v = [plain(x) for x in extract_printed(rv.out, "VERDICT")]
            if not v:
                chk.machinery("TraceWorker batch %d: no verdict: %s" % (bi, rv.error or rv.out[-400:]))
                continue
            total, viol = v[-1]
            worker_ops += total
            lines = None
            for line, clause in sorted(viol)[:3]:
                if lines is None:
                    lines = open(path).read().splitlines()
                rec = json.loads(lines[line - 1])
                job, wf = index[rec["w"] - 1]
                chk.violation("worker:order", "worker process of handler %d (run %s), operation %d: %s"
                              % (rec["hid"], job, rec["seq"], clause),
                              dict(run=job, worker_log=open(wf).read().splitlines()[:rec["seq"] + 2]))
        chk.notes["worker_operations_validated"] = worker_ops
        if multi and not worker_ops:
            chk.machinery("vacuous: no worker-side log was validated")
        chk.notes["schedules"] = len(results) - len(plans)
        chk.notes["mediator_stage_records_validated"] = stage_records
