"""C20 — the multi-process mediator commits what the single-process mediator commits.

D: MultiProc.tla (mediator + one worker per handler, non-atomic or-event, pre-computed out-states used and discarded):
   no MediatorError / assert site reachable, committed out-state computed from the current in-state, pipes clean at start,
   semaphore bound, no deadlock, every run completes (weak fairness), for cores 2, 3, 4 and 2-3 legs.
T: real runs under the multi-process mediator with per-handler random streams under controlled schedules (a shim around
   connection.wait reports harness-chosen subsets/orders of the ready pipes; workers answer with harness-chosen delays),
   each compared with the single-process run by Lockstep.tla (no stutter); a hang, an exception or a worker process left
   behind is a violation.
"""
import json
import random

from harness import lockstep, runs, tlc
from harness.build import Scratch

SOFT = ["Coulomb.event_handler=two_leaf_unit_event_handler", "TwoLeafUnitEventHandler.potential=inverse_power_potential",
        "InversePowerPotential.prefactor=1.0", "InversePowerPotential.power=2", "HypercubicSetting.beta=2"]
DESIGN = {"quick": ["MultiProc_3.cfg", "MultiProc_3c2.cfg", "MultiProc_3c4.cfg"],
          "thorough": ["MultiProc_3.cfg", "MultiProc_3c2.cfg", "MultiProc_3c4.cfg", "MultiProc_3x3.cfg"]}


def run(chk):
    quick = chk.tier == "quick"
    chk.assumptions += ["model: 3 handlers, cores 2-4, 2-3 legs, activator/scheduler as nondeterministic environment",
                        "runs: soft-sphere atoms (out-state computation draws no random numbers), 3-4 atoms, per-handler "
                        "random streams; schedules are sampled (policies x delays x cores), not all interleavings"]
    chk.trusted += ["harness/recorder.py per-handler streams and the connection.wait shim (reports a subset of the really "
                    "ready pipes, a legal result of connection.wait)", "harness/lockstep.py"]
    rnd = random.Random(chk.seed)
    with Scratch() as sc:
        for cfg in DESIGN[chk.tier]:
            res = chk.add_tlc("MultiProc/" + cfg, tlc.run("MultiProc", cfg, sc.sub("d_" + cfg), workers=16, timeout=1500))
            for inv in res.violated:
                chk.violation("design:" + inv, "MultiProc.tla (%s): %s violated" % (cfg, inv), res.out[-6000:])
        plans = []
        for n_atoms, end in ((3, "2.5"), (4, "3.5")):
            sets = SOFT + ["RandomInputHandler.number_of_root_nodes=%d" % n_atoms, "Coulomb.number_event_handlers=%d" % (n_atoms - 1),
                           "FinalTimeEndOfRunEventHandler.end_of_run_time=" + end,
                           "FixedIntervalSamplingEventHandler.sampling_interval=0.4"]
            plans.append((n_atoms, sets))
        jobs = []
        nsched = 10 if quick else 60
        for pi, (n_atoms, sets) in enumerate(plans):
            base = dict(config=runs.P + "coulomb_atoms/power_bounded.ini", seed=chk.seed + pi, sets=sets)
            jobs.append(dict(base, name="single%d" % pi, extra=["--streams", "5"], plan=pi))
            nh = (n_atoms - 1) + 4
            for k in range(nsched):
                cores = rnd.choice([2, 3, 3, 4, 16])
                policy = rnd.choice(["native", "linger", "reverse", "shuffle", "one"])
                delays = {}
                for h in range(1, nh + 1):
                    if rnd.random() < 0.5:
                        delays[str(h)] = [rnd.choice([0, 0, 0.01, 0.03]), rnd.choice([0, 0, 0.02, 0.05])]
                sched = dict(policy=policy, seed=rnd.randint(0, 10 ** 6), delays=delays)
                jobs.append(dict(base, name="multi%d_%d" % (pi, k), validate=False, plan=pi, cores=cores, sched=sched,
                                 extra=["--streams", "5", "--multi", str(cores), "--schedule", json.dumps(sched)]))
        results = runs.record_and_validate(sc, jobs, workers=8, timeout=90)
        ref = {}
        for r in results:
            if r["job"]["name"].startswith("single"):
                if not r["status"].get("ok") or not r.get("verdict"):
                    chk.machinery("single-process reference run failed: %s" % r["status"])
                    return
                if r.get("tlc") is not None:
                    chk.add_tlc("TraceEcmc/" + r["job"]["name"], r["tlc"])
                recs = lockstep.load(r["trace"])
                p, v = lockstep.tables(recs)
                ref[r["job"]["plan"]] = lockstep.commit_trace(recs, p, v)
        pre = 0
        for r in results:
            job = r["job"]
            if job["name"].startswith("single"):
                continue
            desc = "cores=%d policy=%s delays=%s" % (job["cores"], job["sched"]["policy"], job["sched"]["delays"])
            st = r["status"]
            if r["run_rc"] == -9:
                chk.violation("hang", "multi-process run did not finish within 90 s (deadlock): " + desc, dict(job=job))
                continue
            if not st.get("ok"):
                chk.violation("run-exception:%s" % st.get("exc"), "multi-process run terminated by %s (%s): %s"
                              % (st.get("exc"), st.get("msg"), desc), dict(job=job, tb=st.get("tb")))
                continue
            recs = lockstep.load(r["trace"])
            if recs[-1].get("children", 0) != 0:
                chk.violation("children", "worker processes left behind after post_run: " + desc, dict(job=job))
            p, v = lockstep.tables(recs)
            tb = lockstep.commit_trace(recs, p, v)
            ok, detail, res = lockstep.compare(sc, job["name"], ref[job["plan"]], tb, [])
            chk.add_tlc("Lockstep/" + job["name"], res)
            chk.traces += 1
            chk.evaluations += len(tb)
            if ok is None:
                chk.machinery("Lockstep %s: %s" % (job["name"], detail))
            elif not ok:
                chk.violation("lockstep:multi-vs-single", "multi-process run commits other events / samples than the "
                              "single-process run after %d records: %s" % (detail["consumed_b"], desc), dict(job=job, detail=detail))
            if len(chk.samples) < 3:
                chk.sample(dict(schedule=job["sched"], cores=job["cores"], compared_records=len(tb)))
        chk.notes["schedules"] = len(results) - len(plans)
