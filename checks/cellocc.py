"""Shared D+R part of C10 and C11: CellOcc.tla exhaustively for five configurations + simulation behaviours replayed into
the real SingleActiveCellOccupancy / CuboidPeriodicCells / tagger generators."""
import json
import os
import re
from concurrent.futures import ThreadPoolExecutor

from harness import tlc
from harness.build import run_py
from harness.common import extract_json

CONFIGS = ["A", "B", "C", "D", "E"]


def consts(cfg_text):
    g = lambda k: int(re.search(r"%s = (\d+)" % k, cfg_text).group(1))
    rel = [int(x) for x in re.search(r"Relevant = \{([^}]*)\}", cfg_text).group(1).split(",")]
    return dict(nunits=g("NUnits"), ncells=g("NCells"), layers=g("Layers"), maxocc=g("MaxOcc"), relevant=rel)


def run(chk, sc, invariants):
    quick = chk.tier == "quick"
    for c in CONFIGS:
        res = chk.add_tlc("CellOcc/" + c, tlc.run("CellOcc", "CellOcc_%s.cfg" % c, sc.sub("d" + c), workers=8, timeout=900))
        for inv in res.violated:
            if inv in invariants or True:
                chk.violation("design:%s" % inv, "CellOcc.tla (config %s): %s violated" % (c, inv), res.out[-5000:])
        if res.deadlock:
            chk.violation("design:deadlock", "CellOcc.tla (config %s): deadlock" % c, res.out[-3000:])
    num = 40 if quick else 400
    jobs = [(c, p) for c in CONFIGS for p in range(2 if quick else 3)]

    def sim(job):
        c, p = job
        res = tlc.run("CellOccSim", "CellOccSim_%s.cfg" % c, sc.sub("s%s%d" % (c, p)), workers=1, simulate="num=%d" % num,
                      depth=31, seed=chk.seed + 17 * p + ord(c), timeout=900, java_opts=["-XX:ParallelGCThreads=2", "-Xmx2g"])
        return c, res, extract_json(res.out, "BEH")
    with ThreadPoolExecutor(10) as ex:
        results = list(ex.map(sim, jobs))
    by = {}
    for c, res, behs in results:
        chk.add_tlc("CellOccSim/" + c, res)
        d = by.setdefault(c, {})
        for b in behs:
            d.setdefault(json.dumps(b, sort_keys=True), b)
    kinds, surplus_steps = {}, 0
    for c, d in by.items():
        behs = list(d.values())
        if not behs:
            chk.machinery("no CellOcc behaviours for config " + c)
            continue
        cfg = consts(open(os.path.join(tlc.SPECS, "CellOcc_%s.cfg" % c)).read())
        path = os.path.join(sc.dir, "cellocc_%s.json" % c)
        json.dump(dict(behaviours=behs, **cfg), open(path, "w"))
        r = run_py(sc, ["-m", "harness.replay_cellocc", path], timeout=1800)
        if r.returncode != 0:
            chk.machinery("replay_cellocc crashed: " + r.stderr[-1500:])
            continue
        s = json.loads(r.stdout)
        chk.traces += s["behaviours"]
        chk.evaluations += s["steps"]
        surplus_steps += s["surplus_steps"]
        for k, v in s["kinds"].items():
            kinds[k] = kinds.get(k, 0) + v
        if not chk.samples:
            chk.sample(dict(config=cfg, ops=[o["op"] for o in behs[0]["steps"][:6]], state_after=behs[0]["steps"][5]))
        for d in s.get("drift", []):
            chk.notes.setdefault("transcription_drift", []).append("CellOcc %s: behaviour %d step %d: %s" % (c, d["behaviour"], d["step"], d["what"]))
        for f in s["fails"]:
            chk.violation("replay:" + f["what"].split(" after ")[0],
                          "real cell occupancy diverges from CellOcc.tla (config %s) at step %d: %s" % (c, f["step"], f["what"]),
                          dict(fail=f, config=cfg, behaviour=dict(init=behs[f["behaviour"]]["init"],
                                                                  ops=[o["op"] for o in behs[f["behaviour"]]["steps"][:f["step"] + 1]])))
    chk.notes["cellocc_replayed_ops"] = kinds
    chk.notes["cellocc_steps_with_surplus"] = surplus_steps
    for need in ("start", "cross", "lift"):
        if not kinds.get(need):
            chk.machinery("vacuous CellOcc replay: no %s step" % need)
    if not surplus_steps:
        chk.machinery("vacuous CellOcc replay: surplus lists never non-empty")
