"""C05 — lifting schemes balance the flow.  D: Lifting.tla (every zero-sum integer table);  R: every (scheme, table,
active unit, draw) on the real classes, with one long-lived object per scheme (reset between tables, as the event
handlers use them) and a fresh object per case;  T: lifting records of real runs (checks/runlevel.py)."""
from harness import opcheck
from harness.build import Scratch


def run(chk):
    chk.assumptions += ["integer rate tables of length <= 5 (quick) / 6 (thorough) over -2..2 summing to zero; draws at the "
                        "mid-point of every unit piece of the draw interval plus the two end points; near-cancelling float "
                        "tables are outside the lattice"]
    with Scratch() as sc:
        cfg = "Lifting_6.cfg" if chk.tier == "thorough" else "Lifting_quick.cfg"
        tab = opcheck.design_and_table(chk, sc, "Lifting", cfg, "harness.drive_lifting", workers=8, timeout=1500)
        if tab:
            chk.sample(tab["rows"][len(tab["rows"]) // 2])
            # design-level end-point clause: a draw exactly on an interval boundary must not select a unit whose
            # derivative is not negative
            for row in tab["rows"]:
                t = row["t"]
                for i, sel in enumerate(row["end"]):
                    if t[sel - 1] >= 0:
                        scheme = ("inside", "outside", "ratio")[i % 3]
                        chk.violation("endpoint:zero-rate-selected",
                                      "%s lifting selects a unit with derivative %d when the draw is exactly %s "
                                      "(table %s, active %d); real classes replayed on the same draw agree with the model"
                                      % (scheme, t[sel - 1], "0.0" if i < 3 else "the upper end", t, row["a"]), row)
        from checks import runlevel
        runlevel.run_for(chk, "C05")
