"""C05 — lifting schemes balance the flow.
D: Lifting.tla (every zero-sum integer table; FlowBalance, NegativeOnly).
R/T at the level of the property: the real lifting classes (one long-lived object per scheme, reset between tables as
   the event handlers use them, and a fresh object per table) and the real composite-object event handler (2+2 and 3+3
   point masses, scripted pair derivatives, every point mass active in turn) are driven through every unit piece of the
   draw range; TraceLifting.tla counts what they selected: inflow into k == |t[k]|, nothing non-negative selected.
   The routing of Lifting.tla itself is compared too, but a different balanced routing is reported as a note only.
T: lifting records of real runs (checks/runlevel.py)."""
import json

from harness import opcheck
from harness.build import Scratch


def _key(rec, clause):
    if clause.startswith("endpoint"):
        return "endpoint:zero-rate-selected"
    return "trace:" + clause.split(":")[0]


def run(chk):
    chk.assumptions += ["integer rate tables of length <= 5 (quick) / 6 (thorough) over -2..2 summing to zero; draws at the "
                        "mid-point of every unit piece of the draw interval plus the two end points; near-cancelling float "
                        "tables are outside the lattice",
                        "handler level: pair derivatives in {-1, 0, 1} between 2+2 and 3+3 point masses (scripted "
                        "potential), events confirmed by a forced draw"]
    with Scratch() as sc:
        cfg = "Lifting_6.cfg" if chk.tier == "thorough" else "Lifting_quick.cfg"
        tab = opcheck.design_and_table(chk, sc, "Lifting", cfg, "harness.drive_lifting", workers=8, timeout=1500,
                                       replay=False)
        if tab:
            chk.sample(tab["rows"][len(tab["rows"]) // 2])
            for idx, mode, args in (("classes", "flows", [tab["_path"]]),
                                    ("handler", "handler", [4000 if chk.tier == "thorough" else 400])):
                opcheck.key_trace(chk, sc, "TraceLifting", "harness.drive_lifting", idx, args, keyfn=_key, mode=mode)
                try:
                    notes = json.load(open("%s/TraceLifting_%s.ndjson.notes.json" % (sc.dir, idx)))
                    if notes["differs"]:
                        chk.notes["routing_note"] = ("the routing of the real classes differs from the transcription in Lifting.tla "
                                         "(balance is judged by TraceLifting.tla, not by this): %s" % notes["differs"][:2])
                except OSError:
                    pass
        from checks import runlevel
        runlevel.run_for(chk, "C05")
