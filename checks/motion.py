"""Shared D+R part of C07 and C12: Motion.tla (velocity / position bookkeeping of the event handlers on an integer lattice)
exhaustively, and simulation behaviours replayed into the real handler classes + TreeStateHandler."""
import json
import os
from concurrent.futures import ThreadPoolExecutor

from harness import tlc
from harness.build import run_py
from harness.common import extract_json

SHAPES = {"22": (2, 2), "32": (3, 2), "24": (2, 4)}


def run(chk, sc):
    quick = chk.tier == "quick"
    chk.assumptions.append("Motion.tla: 2-3 composite objects of 2 or 4 point masses (dyadic weights), integer lattice, "
                           "2 directions, times <= 4 (exhaustive) / <= 12 (simulated behaviours)")
    res = chk.add_tlc("Motion/22", tlc.run("Motion", "Motion_22.cfg", sc.sub("motion_d"), workers=16, timeout=1500))
    for inv in res.violated:
        chk.violation("design:" + inv, "Motion.tla: %s violated" % inv, res.out[-5000:])
    num = 30 if quick else 300
    jobs = [(s, p) for s in SHAPES for p in range(1 if quick else 4)]

    def sim(job):
        s, p = job
        r = tlc.run("MotionSim", "MotionSim_%s.cfg" % s, sc.sub("motion_s%s_%d" % (s, p)), workers=1, simulate="num=%d" % num,
                    depth=31, seed=chk.seed + 31 * p + int(s), timeout=1200, java_opts=["-XX:ParallelGCThreads=2", "-Xmx2g"])
        return s, r, extract_json(r.out, "BEH")
    with ThreadPoolExecutor(8) as ex:
        results = list(ex.map(sim, jobs))
    by = {}
    for s, r, behs in results:
        chk.add_tlc("MotionSim/" + s, r)
        for inv in r.violated:
            chk.violation("design:" + inv, "MotionSim (%s): %s violated" % (s, inv), r.out[-3000:])
        d = by.setdefault(s, {})
        for b in behs:
            d.setdefault(json.dumps(b, sort_keys=True), b)
    kinds = {}
    for s, d in by.items():
        behs = list(d.values())
        if not behs:
            chk.machinery("no Motion behaviours for shape " + s)
            continue
        path = os.path.join(sc.dir, "motion_%s.json" % s)
        json.dump(dict(nroots=SHAPES[s][0], nleaves=SHAPES[s][1], box=128, behaviours=behs), open(path, "w"))
        r = run_py(sc, ["-m", "harness.replay_motion", path], timeout=1800)
        if r.returncode != 0:
            chk.machinery("replay_motion crashed: " + r.stderr[-1500:])
            continue
        out = json.loads(r.stdout)
        chk.traces += out["behaviours"]
        chk.evaluations += out["steps"]
        for k, v in out["kinds"].items():
            kinds[k] = kinds.get(k, 0) + v
        for f in out["fails"]:
            chk.violation("replay:" + f["what"].split(" after ")[0],
                          "real event handlers diverge from Motion.tla (shape %s) at step %d: %s" % (s, f["step"], f["what"]),
                          dict(fail=f, ops=[o["op"] for o in behs[f["behaviour"]]["steps"][:f["step"] + 1]]))
    chk.notes["motion_replayed_ops"] = kinds
    for need in ("start", "lift", "slice", "pass", "to_root", "to_leaf", "end_of_chain", "sample"):
        if not kinds.get(need):
            chk.machinery("vacuous Motion replay: no %s step" % need)
