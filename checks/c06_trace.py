"""C06, code -> spec: long histories on the real schedulers validated against TraceHeap.tla, and the same histories
through heap.c under ASan+UBSan (memory-safety clause)."""
import json
import os
import subprocess
from concurrent.futures import ThreadPoolExecutor

from harness import tlc
from harness.build import run_py
from harness.common import extract_printed, plain, ROOT

PLAN = {"quick": dict(n=10, steps=1500, nh=90), "thorough": dict(n=48, steps=4000, nh=120)}


def build_asan(sc):
    exe = os.path.join(sc.dir, "heap_driver")
    src = os.path.join(sc.repo, "jellyfysh/scheduler/heap_scheduler")
    cmd = ["clang", "-g", "-O1", "-fsanitize=address,undefined", "-fno-sanitize-recover=undefined",
           "-fno-omit-frame-pointer", "-I", src, os.path.join(ROOT, "harness/heap_driver.c"),
           os.path.join(src, "heap.c"), "-o", exe]
    p = subprocess.run(cmd, stdout=subprocess.PIPE, stderr=subprocess.STDOUT, text=True)
    if p.returncode != 0:
        return None, p.stdout[-2000:]
    return exe, ""


def build_asan_small(sc):
    """heap.c of the working tree with its initial allocation of 64 entries replaced by 3 (the InitSize of Heap.tla), so that
    the reallocation boundaries 3/6/12 of the model's behaviours are the boundaries of the C code under ASan."""
    import re
    src = os.path.join(sc.repo, "jellyfysh/scheduler/heap_scheduler")
    text = open(os.path.join(src, "heap.c")).read()
    small, n = re.subn(r"(heap->size\s*\?\s*heap->size\s*\*\s*2\s*:\s*)64\b", r"\g<1>3", text)
    if n != 1:
        return None, "initial size literal not found in heap.c (pattern `heap->size ? heap->size * 2 : 64`)"
    d = sc.sub("small_heap")
    open(os.path.join(d, "heap.c"), "w").write(small)
    exe = os.path.join(d, "heap_driver_small")
    cmd = ["clang", "-g", "-O1", "-fsanitize=address,undefined", "-fno-sanitize-recover=undefined",
           "-fno-omit-frame-pointer", "-I", src, os.path.join(ROOT, "harness/heap_driver.c"),
           os.path.join(d, "heap.c"), "-o", exe]
    p = subprocess.run(cmd, stdout=subprocess.PIPE, stderr=subprocess.STDOUT, text=True)
    if p.returncode != 0:
        return None, p.stdout[-2000:]
    return exe, ""


def asan_behaviours(chk, sc, cfg, behs, const):
    """Every TLC behaviour of HeapSim (InitSize 3, counters next to 2^32-1) through the small-allocation ASan build."""
    exe, err = build_asan_small(sc)
    if exe is None:
        chk.notes["asan_small"] = "skipped: " + err
        return
    off = 2 ** 32 - 1 - const["max_counter"]
    d = sc.sub("small_ops_" + cfg)

    def one(i):
        lines = ["S %d %d" % (h, off) for h in range(1, const["nhandlers"] + 1)]
        for obs in behs[i]:
            op = obs["op"]
            if op["name"] == "push":
                if abs(op["t"][0]) >= 1000000:
                    lines.append("P %d %d 0" % (op["h"], op["t"][0]))
                else:
                    lines.append("P %d %d %d" % (op["h"], op["t"][0], op["t"][1] * 2))
            elif op["name"] == "trash":
                lines.append("T %d" % op["h"])
            elif op["name"] == "get":
                lines.append("G")
            elif op["name"] == "repickle":
                lines.append("K")
        path = os.path.join(d, "b%d.txt" % i)
        open(path, "w").write("\n".join(lines) + "\n")
        a = subprocess.run([exe, path], stdout=subprocess.DEVNULL, stderr=subprocess.PIPE, text=True, timeout=120,
                           env=dict(os.environ, ASAN_OPTIONS="detect_leaks=1:abort_on_error=0"))
        bad = a.returncode != 0 or "ERROR: AddressSanitizer" in a.stderr or "runtime error" in a.stderr
        return i, bad, a.stderr[-3000:], path
    with ThreadPoolExecutor(16) as ex:
        res = list(ex.map(one, range(len(behs))))
    chk.evaluations += len(res)
    chk.notes.setdefault("asan_small_behaviours", {})[cfg] = len(res)
    for i, bad, err, path in res:
        if bad:
            chk.violation("asan", "heap.c (initial allocation 3 as in Heap.tla) under ASan/UBSan reports an invalid access on a "
                          "TLC behaviour of %s" % cfg, dict(config=cfg, ops=open(path).read().split("\n"), stderr=err))


def run(chk, sc):
    plan = PLAN[chk.tier]
    exe, err = build_asan(sc)
    if exe is None:
        chk.machinery("cannot build ASan driver: " + err)
        return
    tdir = sc.sub("traces")

    def one(i):
        seed = chk.seed * 31 + i
        tr, ops = os.path.join(tdir, "t%d.ndjson" % i), os.path.join(tdir, "ops%d.txt" % i)
        nh = plan["nh"] if i % 3 else 12          # every third history: few handlers, deep lazy deletion
        g = run_py(sc, ["-m", "harness.gen_heap_trace", str(seed), str(plan["steps"]), str(nh), tr, ops, "250"],
                   timeout=900)
        if g.returncode != 0:
            return i, seed, dict(gen_error=g.stderr[-3000:])
        res = tlc.run("TraceHeap", "TraceHeap.cfg", sc.sub("tt%d" % i), workers=1, env={"TRACE_FILE": tr},
                      timeout=1200, java_opts=["-XX:ParallelGCThreads=2"])
        verdicts = [plain(v) for v in _verdicts(res.out)]
        a = subprocess.run([exe, ops], stdout=subprocess.PIPE, stderr=subprocess.PIPE, text=True, timeout=600,
                           env=dict(os.environ, ASAN_OPTIONS="detect_leaks=1:abort_on_error=0"))
        # compare raw-C results of `G' with the logged (model-validated) results of HeapScheduler
        want = []
        maxlen = 0
        eras = json.loads(g.stdout).get("eras", 0)
        kinds = {}
        for line in open(tr):
            d = json.loads(line)
            maxlen = max(maxlen, d["len"])
            k = d["op"] + ":" + d.get("err", "")
            kinds[k] = kinds.get(k, 0) + 1
            if d["op"] == "get":
                want.append({"none": d["ret"], "empty": 0, "decreasing": None}[d["err"]])
        got = [int(l.split()[1]) for l in a.stdout.splitlines() if l.startswith("G ")]
        # a `decreasing' SchedulerError still pops lazily deleted roots; the raw root() returns the handler anyway
        cmp_ok = len(got) == len(want) and all((w is None and g_ != 0) or w == g_ for g_, w in zip(got, want))
        return i, seed, dict(res=res, verdicts=verdicts, asan_rc=a.returncode, asan_err=a.stderr[-3000:],
                             raw_ok=cmp_ok, maxlen=maxlen, eras=eras, kinds=kinds, trace=tr, ops=ops,
                             nlines=sum(kinds.values()))

    with ThreadPoolExecutor(16) as ex:
        results = list(ex.map(one, range(plan["n"])))
    grown = 0
    overflow = 0
    for i, seed, r in results:
        if "gen_error" in r:
            # an exception of the real code while executing a protocol-respecting history is itself a finding
            chk.violation("trace:exception", "real scheduler raised while executing history seed=%d" % seed, r["gen_error"])
            continue
        res = r["res"]
        chk.add_tlc("TraceHeap#%d" % i, res)
        if r["maxlen"] > 128:
            grown += 1
        if r["eras"] > 0:
            overflow += 1
        if not r["verdicts"]:
            chk.violation("trace:stuck", "history seed=%d is not a behaviour of Heap.tla (trace not consumed)" % seed,
                          dict(out=res.out[-3000:], seed=seed))
            continue
        total, viol = r["verdicts"][-1]
        chk.traces += 1
        chk.evaluations += total
        drift = [v for v in viol if v[1].startswith("transcription:")]
        viol = [v for v in viol if not v[1].startswith("transcription:")]
        if drift:
            chk.notes.setdefault("transcription_drift", []).append(
                "history seed=%d line %d: %s (%d such clauses; Heap.tla's design-level results do not transfer to this "
                "code until the spec is updated)" % (seed, sorted(drift)[0][0], sorted(drift)[0][1], len(drift)))
        if viol:
            first = sorted(viol)[0]
            _keep(chk, r)
            chk.violation("trace:%s" % first[1],
                          "real scheduler history seed=%d diverges from Heap.tla at line %d: %s (%d clause failures)"
                          % (seed, first[0], first[1], len(viol)), dict(seed=seed, violations=sorted(viol)[:20]))
        if r["asan_rc"] != 0 or "ERROR: AddressSanitizer" in r["asan_err"] or "runtime error" in r["asan_err"]:
            _keep(chk, r)
            chk.violation("asan", "heap.c under ASan/UBSan reports an invalid access on history seed=%d" % seed,
                          dict(seed=seed, stderr=r["asan_err"]))
        if not r["raw_ok"]:
            chk.violation("rawc", "raw heap.c root() (ASan build) returns other handlers than HeapScheduler, seed=%d" % seed,
                          dict(seed=seed))
        if i == 0:
            chk.sample(dict(trace_seed=seed, lines=r["nlines"], max_heap_length=r["maxlen"], counter_resets=r["eras"],
                            op_kinds=r["kinds"]))
    chk.notes["trace_histories_crossing_128_entries"] = grown
    chk.notes["trace_histories_with_counter_overflow"] = overflow
    if grown == 0:
        chk.machinery("vacuous: no recorded history grew the C heap beyond 128 entries (64->128->256 reallocation)")
    if overflow == 0:
        chk.machinery("vacuous: no recorded history reached the counter overflow branch")


def _verdicts(out):
    return list(extract_printed(out, "VERDICT"))


def _keep(chk, r):
    pass
